"""Scalar terms: concrete (int / Fraction / bool) or z3; uninterpreted theory; Sum symbols.

Semantics assumed (see DESIGN §2.3): Python/numpy floats are mathematical reals, machine
integers are mathematical integers.  Concrete arithmetic is exact (Fractions).
"""
from fractions import Fraction
import z3

RealS, IntS, BoolS = z3.RealSort(), z3.IntSort(), z3.BoolSort()


class Unsupported(Exception):
    """Construct outside the verified subset: the function is *undecided*, never a violation."""


def is_sym(v):
    return isinstance(v, z3.ExprRef)


def is_num(v):
    return (isinstance(v, (int, Fraction)) and not isinstance(v, bool)) or (
        is_sym(v) and z3.is_arith(v))


def is_conc_num(v):
    return isinstance(v, (int, Fraction)) and not isinstance(v, bool)


def is_boolish(v):
    return isinstance(v, bool) or (is_sym(v) and z3.is_bool(v))


class XR:
    """A float that may be NaN: (v, nan).  `v` is the real value when `nan` is false and is
    meaningless otherwise.  Arithmetic propagates the flag (IEEE), every ordered comparison and
    `==` with a NaN operand is false, `!=` is true.  Infinities are not modelled.  Only values that
    can actually be NaN are represented this way (np.nan stores, arrays declared 'xreal')."""
    __slots__ = ("v", "nan")

    def __init__(self, v, nan):
        self.v, self.nan = v, nan

    def __repr__(self):
        return f"XR({self.v}, nan={self.nan})"


def xr(v, nan):
    """smart constructor: a value that is certainly not NaN stays a plain term"""
    if isinstance(v, XR):
        v, nan = v.v, lor(v.nan, nan)
    if isinstance(nan, bool) and not nan:
        return v
    if is_sym(nan):
        nan = z3.simplify(nan)
        if z3.is_false(nan):
            return v
        if z3.is_true(nan):
            nan = True
    return XR(v, nan)


def xval(a):
    return a.v if isinstance(a, XR) else a


def xnan(a):
    return a.nan if isinstance(a, XR) else False


def _xlift(fn, *ops):
    return xr(fn(*[xval(o) for o in ops]), lor(*[xnan(o) for o in ops]))


def _anyx(*ops):
    for o in ops:
        if isinstance(o, XR):
            return True
    return False


def is_val(v):
    """number, boolean or NaN-able number"""
    return is_num(v) or is_boolish(v) or isinstance(v, XR)


def to_z3(v):
    if is_sym(v):
        return v
    if isinstance(v, XR):
        raise Unsupported("possibly-NaN value used where a real number is required")
    if isinstance(v, bool):
        return z3.BoolVal(v)
    if isinstance(v, int):
        return z3.IntVal(v)
    if isinstance(v, Fraction):
        if v.denominator == 1:
            return z3.RealVal(v.numerator)
        return z3.Q(v.numerator, v.denominator)
    if isinstance(v, float):
        return to_z3(Fraction(repr(v)))
    raise Unsupported(f"cannot convert {type(v).__name__} to a term")


def to_real(v):
    if isinstance(v, int) and not isinstance(v, bool):
        return z3.RealVal(v)
    v = to_z3(v) if not is_sym(v) else v
    if z3.is_int(v):
        return z3.ToReal(v)
    if z3.is_bool(v):
        return z3.If(v, z3.RealVal(1), z3.RealVal(0))
    return v


def from_float(x):
    """A Python float literal denotes the decimal the programmer wrote."""
    if isinstance(x, float):
        if x != x or x in (float("inf"), float("-inf")):
            raise Unsupported("non-finite literal")
        return Fraction(repr(x))
    return x


def as_int_like(v):
    if isinstance(v, bool):
        return int(v)
    return v


def _b2n(v):
    if isinstance(v, bool):
        return int(v)
    if is_sym(v) and z3.is_bool(v):
        return z3.If(v, z3.IntVal(1), z3.IntVal(0))
    return v


def add(a, b):
    if _anyx(a, b):
        return _xlift(add, a, b)
    a, b = _b2n(a), _b2n(b)
    if is_conc_num(a) and is_conc_num(b):
        return a + b
    if is_conc_num(a) and a == 0:
        return b
    if is_conc_num(b) and b == 0:
        return a
    return to_z3(a) + to_z3(b)


def sub(a, b):
    if _anyx(a, b):
        return _xlift(sub, a, b)
    a, b = _b2n(a), _b2n(b)
    if is_conc_num(a) and is_conc_num(b):
        return a - b
    if is_conc_num(b) and b == 0:
        return a
    return to_z3(a) - to_z3(b)


def mul(a, b):
    if _anyx(a, b):
        return _xlift(mul, a, b)
    a, b = _b2n(a), _b2n(b)
    if is_conc_num(a) and is_conc_num(b):
        return a * b
    for x, y in ((a, b), (b, a)):
        if is_conc_num(x):
            if x == 1:
                return y
            if x == 0 and not (is_sym(y) and False):
                # 0 * y == 0 in the real model (NaN/inf are outside the model)
                return Fraction(0) if (isinstance(x, Fraction) or (is_sym(y) and z3.is_real(y))) else 0
    return to_z3(a) * to_z3(b)


def neg(a):
    if isinstance(a, XR):
        return _xlift(neg, a)
    if is_sym(a) and a.eq(INF):
        return NINF
    if is_sym(a) and a.eq(NINF):
        return INF
    a = _b2n(a)
    if is_conc_num(a):
        return -a
    return -a


def div(a, b):
    if _anyx(a, b):
        return _xlift(div, a, b)
    a, b = _b2n(a), _b2n(b)
    if is_conc_num(a) and is_conc_num(b):
        if b == 0:
            raise Unsupported("concrete division by zero")
        return Fraction(a) / Fraction(b)
    if is_conc_num(b) and b == 1:
        return to_real(a)
    return to_real(a) / to_real(b)


def _is_intlike(v):
    return isinstance(v, int) or (is_sym(v) and z3.is_int(v))


def floordiv(a, b):
    if _anyx(a, b):
        return _xlift(floordiv, a, b)
    a, b = _b2n(a), _b2n(b)
    if is_conc_num(a) and is_conc_num(b):
        return a // b if isinstance(a, int) and isinstance(b, int) else Fraction((a // b))
    if _is_intlike(a) and _is_intlike(b):
        za, zb = to_z3(a), to_z3(b)
        if isinstance(b, int):
            if b > 0:
                return za / zb
            if b < 0:
                return (-za) / z3.IntVal(-b)
        return z3.If(zb > 0, za / zb, (-za) / (-zb))
    return z3.ToReal(z3.ToInt(to_real(a) / to_real(b)))


_ARITH_KINDS = None


def _first_ite_under_arith(t):
    """an if-then-else sub-term of t that is reached through arithmetic operators only"""
    global _ARITH_KINDS
    if _ARITH_KINDS is None:
        _ARITH_KINDS = {z3.Z3_OP_ADD, z3.Z3_OP_SUB, z3.Z3_OP_MUL, z3.Z3_OP_DIV, z3.Z3_OP_UMINUS, z3.Z3_OP_TO_REAL}
    stack = [t]
    while stack:
        x = stack.pop()
        if not z3.is_app(x):
            continue
        k = x.decl().kind()
        if k == z3.Z3_OP_ITE:
            return x
        if k in _ARITH_KINDS:
            stack.extend(x.children())
    return None


def lift_ite(t, fn, budget=24):
    """fn applied below the conditionals of t:  fn(ite(c, a, b) + d)  ->  ite(c, fn(a + d), fn(b + d)).
    Same value; keeps to_int / modulo arguments free of if-then-else, which the solvers handle much better."""
    if not is_sym(t) or budget <= 1:
        return fn(t)
    it = _first_ite_under_arith(t)
    if it is None:
        return fn(t)
    c, a, b = it.children()
    half = budget // 2
    return ite(c, lift_ite(z3.substitute(t, (it, a)), fn, half), lift_ite(z3.substitute(t, (it, b)), fn, half))


def mod(a, b):
    if _anyx(a, b):
        return _xlift(mod, a, b)
    a, b = _b2n(a), _b2n(b)
    if is_conc_num(a) and is_conc_num(b):
        return a % b
    if _is_intlike(a) and _is_intlike(b):
        return sub(a, mul(b, floordiv(a, b)))
    rb = to_real(b)
    return lift_ite(to_real(a), lambda ra: ra - rb * z3.ToReal(z3.ToInt(ra / rb)))


WRAPS = []  # (period term, integer term k) of every real modulo built in this process


def absv(a):
    if isinstance(a, XR):
        return _xlift(absv, a)
    a = _b2n(a)
    if is_conc_num(a):
        return abs(a)
    return z3.If(a >= 0, a, -a)


def power(a, b):
    if _anyx(a, b):
        return _xlift(power, a, b)
    a, b = _b2n(a), _b2n(b)
    if isinstance(b, Fraction) and b.denominator == 1:
        b = int(b)
    if isinstance(b, int) and abs(b) <= 16:
        if is_conc_num(a):
            if b >= 0:
                return a ** b
            if a == 0:
                raise Unsupported("0 ** negative")
            return Fraction(a) ** b
        r = 1
        for _ in range(abs(b)):
            r = mul(r, a)
        if b < 0:
            return div(1, r)
        if b == 0:
            return 1 if _is_intlike(a) else Fraction(1)
        return r
    if isinstance(b, Fraction) and b == Fraction(1, 2):
        return uf("sqrt", a)
    return UF2["powr"](to_real(a), to_real(b))


def _is_inf(v):
    return is_sym(v) and v.eq(INF)


def _is_ninf(v):
    return is_sym(v) and v.eq(NINF)


def _has_inf(v):
    if _is_inf(v):
        return True
    return is_sym(v) and z3.is_app(v) and v.decl().kind() == z3.Z3_OP_ITE and (_has_inf(v.arg(1)) or _has_inf(v.arg(2)))


def cmp(op, a, b):
    if _anyx(a, b):
        c = cmp(op, xval(a), xval(b))
        anyn = lor(xnan(a), xnan(b))
        return lor(anyn, c) if op == "!=" else land(lnot(anyn), c)
    # a merged value ite(c, inf, x) (if-conversion): the comparison is taken per branch, so that the rule below applies
    for side, v in (("a", a), ("b", b)):
        if is_sym(v) and z3.is_app(v) and v.decl().kind() == z3.Z3_OP_ITE and (_has_inf(v.arg(1)) or _has_inf(v.arg(2))):
            if side == "a":
                return ite(v.arg(0), cmp(op, v.arg(1), b), cmp(op, v.arg(2), b))
            return ite(v.arg(0), cmp(op, a, v.arg(1)), cmp(op, a, v.arg(2)))
    # -np.inf (the literal only): below every other value
    if _is_ninf(a) or _is_ninf(b):
        if _is_ninf(a) and _is_ninf(b):
            return op in ("==", "<=", ">=")
        if _is_ninf(a):
            return op in ("<", "<=", "!=")
        return op in (">", ">=", "!=")
    # np.inf: every other real of the model is finite (assumption, DESIGN §2.3)
    if _is_inf(a) or _is_inf(b):
        if _is_inf(a) and _is_inf(b):
            return op in ("==", "<=", ">=")
        if _is_inf(b):
            return op in ("<", "<=", "!=")
        return op in (">", ">=", "!=")
    a, b = _b2n(a) if not is_boolish(a) or is_num(b) else a, _b2n(b) if not is_boolish(b) or is_num(a) else b
    if not is_sym(a) and not is_sym(b):
        return {"<": a < b, "<=": a <= b, ">": a > b, ">=": a >= b, "==": a == b,
                "!=": a != b}[op]
    za, zb = to_z3(a), to_z3(b)
    if op == "<":
        return za < zb
    if op == "<=":
        return za <= zb
    if op == ">":
        return za > zb
    if op == ">=":
        return za >= zb
    if op == "==":
        return za == zb
    return za != zb


def ite(c, a, b):
    if isinstance(c, bool):
        return a if c else b
    if _anyx(a, b):
        return xr(ite(c, xval(a), xval(b)), ite(c, xnan(a), xnan(b)))
    if a is b:
        return a
    if not is_sym(a) and not is_sym(b):
        try:
            if type(a) == type(b) and a == b:
                return a
        except Exception:
            pass
    if is_sym(a) and is_sym(b) and a.eq(b):
        return a
    if is_boolish(a) and is_boolish(b):
        return z3.If(c, to_z3(a), to_z3(b))
    za, zb = to_z3(_b2n(a)), to_z3(_b2n(b))
    if z3.is_int(za) and z3.is_real(zb):
        za = z3.ToReal(za)
    if z3.is_real(za) and z3.is_int(zb):
        zb = z3.ToReal(zb)
    return z3.If(c, za, zb)


def land(*xs):
    ys = []
    for x in xs:
        if isinstance(x, bool):
            if not x:
                return False
            continue
        ys.append(x)
    if not ys:
        return True
    return ys[0] if len(ys) == 1 else z3.And(*ys)


def lor(*xs):
    ys = []
    for x in xs:
        if isinstance(x, bool):
            if x:
                return True
            continue
        ys.append(x)
    if not ys:
        return False
    return ys[0] if len(ys) == 1 else z3.Or(*ys)


def lnot(x):
    if isinstance(x, bool):
        return not x
    return z3.Not(x)


def implies(a, b):
    if isinstance(a, bool):
        return b if a else True
    if isinstance(b, bool):
        return True if b else lnot(a)
    return z3.Implies(a, b)


# --------------------------------------------------------------------------- theory
PI = z3.Real("pi")
INF = z3.Real("inf_")  # np.inf: an opaque value; only (dis)equality with it is meaningful
NINF = z3.Real("ninf_")  # -np.inf as written in the code (the negation of the literal np.inf)
NAN = XR(Fraction(0), True)  # np.nan
UF1 = {n: z3.Function("u_" + n, RealS, RealS) for n in
       ("exp", "log", "sqrt", "sin", "cos", "tan", "tanh", "sinh", "cosh", "arctan",
        "arcsin", "arccos")}
UF2 = {n: z3.Function("u_" + n, RealS, RealS, RealS) for n in ("arctan2", "powr")}


def uf(name, a):
    if isinstance(a, XR):
        return xr(uf(name, a.v), a.nan)
    a = _b2n(a)
    if name == "sqrt" and is_conc_num(a):
        # exact rational square roots stay concrete
        f = Fraction(a)
        if f >= 0:
            import math
            n, d = f.numerator, f.denominator
            rn, rd = math.isqrt(n), math.isqrt(d)
            if rn * rn == n and rd * rd == d:
                return Fraction(rn, rd)
    if name == "exp" and is_conc_num(a) and a == 0:
        return Fraction(1)
    if name in ("sin", "tan", "tanh", "sinh", "arctan") and is_conc_num(a) and a == 0:
        return Fraction(0)
    if name in ("cos", "cosh") and is_conc_num(a) and a == 0:
        return Fraction(1)
    return UF1[name](to_real(a))


def uf2(name, a, b):
    if _anyx(a, b):
        return xr(uf2(name, xval(a), xval(b)), lor(xnan(a), xnan(b)))
    return UF2[name](to_real(a), to_real(b))


def has_var(t, memo=None):
    """does t contain a loose bound variable? (memo must not outlive the terms: ids are recycled)"""
    memo = {} if memo is None else memo
    k = t.get_id()
    if k in memo:
        return memo[k]
    r = False
    if z3.is_var(t):
        r = True
    elif z3.is_app(t):
        r = any(has_var(c, memo) for c in t.children())
    memo[k] = r
    return r


def ground_subterms(ts):
    """sub-terms without loose bound variables (usable in ground axiom instances)"""
    seen = {}
    for t in ts:
        subterms(t, seen)
    memo = {}
    return {k: x for k, x in seen.items() if not has_var(x, memo)}


def skolemize(goal):
    """forall x. A -> B   ==>   ([A[x:=c]], B[x:=c]) with fresh constants, repeatedly"""
    hyps = []
    while True:
        if is_sym(goal) and z3.is_quantifier(goal) and goal.is_forall():
            n = goal.num_vars()
            cs = [z3.Const(Fresh.name("sk_" + goal.var_name(i).split("!")[0]), goal.var_sort(i)) for i in range(n)]
            goal = z3.substitute_vars(goal.body(), *reversed(cs))
            continue
        if is_sym(goal) and z3.is_implies(goal):
            hyps.append(goal.arg(0))
            goal = goal.arg(1)
            continue
        return hyps, goal


def subterms(t, seen=None):
    """All sub-terms of a z3 term (DAG walk)."""
    seen = {} if seen is None else seen
    stack = [t]
    while stack:
        x = stack.pop()
        k = x.get_id()
        if k in seen:
            continue
        seen[k] = x
        if z3.is_app(x):
            stack.extend(x.children())
        elif z3.is_quantifier(x):
            stack.append(x.body())
    return seen


def theory_axioms(terms, extra_trig=False):
    """Ground instances of the A-table (DESIGN §2.7) for the applications occurring in `terms`.
    Every instance is a true statement about the real functions; none is quantified."""
    seen = ground_subterms(terms)
    ax = []
    has_pi = False
    # integer-valued real terms anywhere in the problem (windings of periodic grids, quotients of real modulos)
    int_terms = {}
    for y in seen.values():
        if z3.is_app(y) and y.decl().kind() == z3.Z3_OP_TO_REAL and not z3.is_int_value(y.arg(0)):
            int_terms[y.get_id()] = y
        elif z3.is_app(y) and y.decl().kind() == z3.Z3_OP_TO_INT:
            int_terms[y.get_id()] = z3.ToReal(y)
    int_terms = list(int_terms.values())[:8]
    for x in list(seen.values()):
        if not z3.is_app(x):
            continue
        d = x.decl()
        n = d.name()
        n = n[2:] if n.startswith("u_") else n
        if x.eq(PI):
            has_pi = True
        if d.arity() == 1 and n in UF1 and d.eq(UF1[n]):
            a = x.arg(0)
            if n == "cos":
                ax.append(z3.Implies(z3.And(2 * a > -PI, 2 * a < PI), x > 0))
                ax.append(z3.Implies(z3.And(2 * a >= -PI, 2 * a <= PI), x >= 0))
                has_pi = True
            if n == "exp":
                ax.append(x > 0)
                ax.append(z3.Implies(a <= 0, x <= 1))
                ax.append(z3.Implies(a >= 0, x >= 1))
            elif n == "sqrt":
                ax.append(x >= 0)   # sqrt of a negative number is NaN in numpy: outside the real model
                ax.append(z3.Implies(a >= 0, x * x == a))
                ax.append(z3.Implies(a > 0, x > 0))
            elif n in ("sin", "cos"):
                ax.append(z3.And(x >= -1, x <= 1))
                other = UF1["cos" if n == "sin" else "sin"](a)
                if extra_trig:
                    ax.append(x * x + other * other == 1)
                # 2*pi periodicity: for every integer-valued sub-term k of the argument (ToInt(..) produced by a real
                # modulo, or ToReal(k) of an integer term), f(a) == f(a + 2*pi*k)  (valid for any integer k)
                ks = {}
                for y in subterms(a).values():
                    if z3.is_app(y) and y.decl().kind() == z3.Z3_OP_TO_INT:
                        ks[y.get_id()] = z3.ToReal(y)
                    elif z3.is_app(y) and y.decl().kind() == z3.Z3_OP_TO_REAL and not z3.is_int_value(y.arg(0)):
                        ks[y.get_id()] = y
                if extra_trig:
                    for kr in int_terms:
                        ks.setdefault(kr.get_id(), kr)
                for kr in ks.values():
                    for sgn in (1, -1):
                        shifted = z3.simplify(a + sgn * 2 * PI * kr, som=True)
                        ax.append(x == UF1[n](shifted))
                    has_pi = True
                if extra_trig:
                    # parity: cos(-a) = cos(a), sin(-a) = -sin(a)
                    na = z3.simplify(-a, som=True)
                    ax.append(x == (UF1[n](na) if n == "cos" else -UF1[n](na)))
            elif n == "tanh":
                ax.append(z3.And(x > -1, x < 1))
                ax.append(z3.Implies(a > 0, x > 0))
                ax.append(z3.Implies(a < 0, x < 0))
                ax.append(z3.Implies(a == 0, x == 0))
            elif n == "sinh":
                ax.append(z3.Implies(a >= 0, x >= a))
                ax.append(z3.Implies(a <= 0, x <= a))
                # sinh(10) = 11013.2.. >= 5000 and d/da sinh = cosh >= cosh(10) >= 500 beyond: sinh(a) >= 500 a
                ax.append(z3.Implies(a >= 10, x >= 500 * a))
            elif n == "cosh":
                ax.append(x >= 1)
            elif n == "log":
                ax.append(z3.Implies(a >= 1, x >= 0))
                ax.append(z3.Implies(z3.And(a > 0, a <= 1), x <= 0))
                ax.append(z3.Implies(a > 1, x > 0))
                ax.append(z3.Implies(z3.And(a > 0, a < 1), x < 0))
            elif n == "arctan":
                ax.append(z3.And(2 * x > -PI, 2 * x < PI))
                has_pi = True
        elif d.arity() == 2 and n in UF2 and d.eq(UF2[n]):
            a, b = x.arg(0), x.arg(1)
            if n == "arctan2":
                ax.append(z3.And(x >= -PI, x <= PI))
                has_pi = True
            elif n == "powr":
                ax.append(z3.Implies(a >= 0, x >= 0))
                ax.append(z3.Implies(a > 0, x > 0))
                ax.append(z3.Implies(z3.And(a == 0, b > 0), x == 0))
                ax.append(z3.Implies(b == 0, x == 1))
                ax.append(z3.Implies(b == 1, x == a))
    if has_pi or any(s.eq(PI) for s in seen.values()):
        ax.append(z3.And(PI > z3.Q(314159265, 100000000), PI < z3.Q(314159266, 100000000)))
    return ax


# A-table, second part: identities that relate *different* arguments of the uninterpreted circular functions.  They are not
# instantiated automatically; a spec-level lemma asks for the instances it needs (contracts/sum_lemmas.py::Theory.axiom) and
# lists them as trusted.  Each is a theorem of real analysis for all real arguments (integer n / winding).
ATAN2_WINDING = z3.Function("atan2_winding", RealS, RealS, RealS, IntS)     # skolem function of "equal modulo 2 pi"


def trig_addition_axioms(x, y):
    """cos(x+y) = cos x cos y - sin x sin y,  sin(x+y) = sin x cos y + cos x sin y"""
    c, s = UF1["cos"], UF1["sin"]
    return [c(x + y) == c(x) * c(y) - s(x) * s(y), s(x + y) == s(x) * c(y) + c(x) * s(y)]


def trig_period_axioms(x, n):
    """cos / sin(x + 2 pi n) = cos / sin(x) for an integer term n"""
    assert z3.is_int(n)
    c, s = UF1["cos"], UF1["sin"]
    return [c(x + 2 * PI * z3.ToReal(n)) == c(x), s(x + 2 * PI * z3.ToReal(n)) == s(x)]


def trig_parity_axioms(x):
    """cos(-x) = cos x, sin(-x) = -sin x"""
    c, s = UF1["cos"], UF1["sin"]
    return [c(-x) == c(x), s(-x) == -s(x)]


def arctan2_rotation_axiom(a, b, phi):
    """the angle of the vector (a, b) != 0 rotated by phi is its angle plus phi, modulo 2 pi:
    arctan2(a sin phi + b cos phi, a cos phi - b sin phi) = arctan2(b, a) + phi + 2 pi n  for an integer n (= atan2_winding(a, b, phi))"""
    c, s, at = UF1["cos"], UF1["sin"], UF2["arctan2"]
    return z3.Implies(z3.Or(a != 0, b != 0),
                      at(a * s(phi) + b * c(phi), a * c(phi) - b * s(phi)) == at(b, a) + phi + 2 * PI * z3.ToReal(ATAN2_WINDING(a, b, phi)))


def arctan2_mirror_axioms(a, b):
    """arctan2(-b, a) = -arctan2(b, a) except on the negative a-axis (b = 0, a < 0), where both are pi"""
    at = UF2["arctan2"]
    return [z3.Implies(z3.Or(b != 0, a >= 0), at(-b, a) == -at(b, a)), z3.Implies(z3.And(b == 0, a < 0), z3.And(at(-b, a) == PI, at(b, a) == PI))]


# Optional abstraction of integer modulo by a *symbolic* divisor (obligation meta "abstract_int_mod", default off): every such
# `x mod n` becomes mod_abs_sym(x, n) for one uninterpreted function, consistently in all formulas of the obligation (also under
# quantifiers).  Any model of the original formulas is a model of the abstracted ones (interpret the symbol as mod), so `unsat`
# is preserved; a `sat` answer is only a candidate (verify._has_abstractions knows the symbol).  Used by spec lemmas that carry
# the facts about mod they need as explicit (proved) hypotheses: z3's own treatment of mod by a symbolic divisor is nonlinear
# integer arithmetic and diverges on them.
MOD_ABS_SYM = z3.Function("mod_abs_sym", IntS, IntS, IntS)


def abstract_int_mod(fs):
    memo = {}

    def walk(t):
        k = t.get_id()
        if k in memo:
            return memo[k][1]
        if z3.is_quantifier(t):
            n = t.num_vars()
            vs = [z3.Const(Fresh.name("am_" + t.var_name(i).split("!")[0]), t.var_sort(i)) for i in range(n)]
            body = walk(z3.substitute_vars(t.body(), *reversed(vs)))
            r = (z3.ForAll if t.is_forall() else z3.Exists)(vs, body)
        elif z3.is_app(t) and t.num_args() > 0:
            ch = [walk(c) for c in t.children()]
            if t.decl().kind() == z3.Z3_OP_MOD and not z3.is_int_value(t.arg(1)):
                r = MOD_ABS_SYM(ch[0], ch[1])
            elif all(c.eq(o) for c, o in zip(ch, t.children())):
                r = t
            else:
                r = t.decl()(*ch)
        else:
            r = t
        memo[k] = (t, r)       # keeps t alive: ids are recycled otherwise
        return r
    return [walk(f) for f in fs]


# --------------------------------------------------------------------------- symbols
class Fresh:
    n = 0

    @classmethod
    def name(cls, base):
        cls.n += 1
        return f"{base}!{cls.n}"

    @classmethod
    def real(cls, base):
        return z3.Real(cls.name(base))

    @classmethod
    def int(cls, base):
        return z3.Int(cls.name(base))

    @classmethod
    def bool(cls, base):
        return z3.Bool(cls.name(base))

    @classmethod
    def func(cls, base, arity, sort=RealS):
        return z3.Function(cls.name(base), *([IntS] * arity), sort)


def free_consts(t, deep=True):
    """Uninterpreted 0-ary constants of a term (also through Sum definitions' arguments)."""
    out = {}
    for x in subterms(t).values():
        if z3.is_const(x) and x.decl().kind() == z3.Z3_OP_UNINTERPRETED:
            out[x.get_id()] = x
    return list(out.values())


def func_decls(t):
    out = {}
    for x in subterms(t).values():
        if z3.is_app(x) and x.num_args() > 0 and x.decl().kind() == z3.Z3_OP_UNINTERPRETED:
            out[x.decl().get_id()] = x.decl()
    return out


# --------------------------------------------------------------------------- sums
class SumDef:
    """Sum_{bv=lo}^{hi-1} body.  app = f(lo, hi, *params)."""
    registry = {}

    def __init__(self, bv, body, params):
        self.bv, self.body, self.params = bv, body, list(params)
        self.f = z3.Function(Fresh.name("Sum"), IntS, IntS, *[p.sort() for p in self.params], RealS)
        SumDef.registry[self.f.get_id()] = self

    def app(self, lo, hi):
        return self.f(to_z3(lo), to_z3(hi), *self.params)

    def body_at(self, app, at):
        args = app.children()
        subs = [(self.bv, to_z3(at))]
        for p, a in zip(self.params, args[2:]):
            subs.append((p, a))
        return z3.substitute(self.body, *subs)


def make_sum(lo, hi, bv, body):
    """Sum over bv in [lo,hi) of body (a term in bv).  Returns a value."""
    body = to_real(body)
    if not any(c.eq(bv) for c in free_consts(body)):
        n = sub(hi, lo)
        cnt = ite(cmp(">", n, 0), n, 0)
        return mul(cnt, body)
    if isinstance(lo, int) and isinstance(hi, int) and hi - lo <= 64:
        acc = Fraction(0)
        for k in range(lo, hi):
            acc = add(acc, z3.substitute(body, (bv, z3.IntVal(k))))
        return acc
    params = [c for c in free_consts(body) if not c.eq(bv)]
    params.sort(key=lambda c: c.decl().name())
    return SumDef(bv, body, params).app(lo, hi)


class ExtDef:
    """max / min over bv in [lo,hi) of body:  app = f(lo, hi, *params)"""
    registry = {}

    def __init__(self, bv, body, params, is_max):
        self.bv, self.body, self.params, self.is_max = bv, body, list(params), is_max
        self.f = z3.Function(Fresh.name("Max" if is_max else "Min"), IntS, IntS, *[p.sort() for p in self.params], RealS)
        ExtDef.registry[self.f.get_id()] = self

    def body_at(self, app, at):
        subs = [(self.bv, to_z3(at))] + list(zip(self.params, app.children()[2:]))
        return z3.substitute(self.body, *subs)


def make_extreme(lo, hi, bv, body, is_max):
    params = [c for c in free_consts(body) if not c.eq(bv)]
    params.sort(key=lambda c: c.decl().name())
    d = ExtDef(bv, body, params, is_max)
    return d.f(to_z3(lo), to_z3(hi), *params)


class FirstDef:
    """first index k in [lo,hi) with body(k), else hi (lo if hi < lo):  app = f(lo, hi, *params)"""
    registry = {}

    def __init__(self, bv, body, params):
        self.bv, self.body, self.params = bv, body, list(params)
        self.f = z3.Function(Fresh.name("First"), IntS, IntS, *[p.sort() for p in self.params], IntS)
        FirstDef.registry[self.f.get_id()] = self

    def body_at(self, app, at):
        subs = [(self.bv, to_z3(at))] + list(zip(self.params, app.children()[2:]))
        return z3.substitute(self.body, *subs)


def make_first(lo, hi, bv, body):
    params = [c for c in free_consts(body) if not c.eq(bv)]
    params.sort(key=lambda c: c.decl().name())
    d = FirstDef(bv, body, params)
    return d.f(to_z3(lo), to_z3(hi), *params)


class ArgmaxDef:
    """first index in [lo,hi) at which val attains its maximum over the indices with valid(.)"""
    registry = {}

    def __init__(self, bv, val, valid, params):
        self.bv, self.body, self.valid, self.params = bv, val, valid, list(params)
        self.f = z3.Function(Fresh.name("Argmax"), IntS, IntS, *[p.sort() for p in self.params], IntS)
        ArgmaxDef.registry[self.f.get_id()] = self

    def at(self, term, app, k):
        subs = [(self.bv, to_z3(k))] + list(zip(self.params, app.children()[2:]))
        return z3.substitute(term, *subs)


def make_argmax(lo, hi, bv, val, valid):
    cs = {c.get_id(): c for c in free_consts(val) + free_consts(valid) if not c.eq(bv)}
    params = sorted(cs.values(), key=lambda c: c.decl().name())
    d = ArgmaxDef(bv, val, valid, params)
    return d.f(to_z3(lo), to_z3(hi), *params)


ARGMAX_CONGRUENCE = ["syntactic"]     # set per obligation from the contract option "argmax_congruence"


def defined_function_ids():
    return set(SumDef.registry) | set(ExtDef.registry) | set(FirstDef.registry) | set(ArgmaxDef.registry)


def ext_axioms(terms):
    """witness and bound axioms for max/min applications (ground apps only)"""
    ax = []
    firsts = {}
    for x in ground_subterms(terms).values():
        if z3.is_app(x) and x.decl().get_id() in ExtDef.registry:
            d = ExtDef.registry[x.decl().get_id()]
            lo, hi = x.arg(0), x.arg(1)
            w = Fresh.int("argext")
            j = Fresh.int("j")
            ax.append(z3.Implies(lo < hi, z3.And(lo <= w, w < hi, x == d.body_at(x, w))))
            b = d.body_at(x, j)
            ax.append(z3.ForAll([j], z3.Implies(z3.And(lo <= j, j < hi), (x >= b) if d.is_max else (x <= b))))
        elif z3.is_app(x) and x.decl().get_id() in FirstDef.registry:
            d = FirstDef.registry[x.decl().get_id()]
            lo, hi = x.arg(0), x.arg(1)
            j = Fresh.int("j")
            ax.append(z3.And(x >= lo, z3.Implies(hi >= lo, x <= hi), z3.Implies(hi < lo, x == lo)))
            ax.append(z3.ForAll([j], z3.Implies(z3.And(lo <= j, j < x), z3.Not(d.body_at(x, j)))))
            ax.append(z3.Implies(x < hi, d.body_at(x, x)))
            firsts.setdefault(x.decl().get_id(), []).append(x)
        elif z3.is_app(x) and x.decl().get_id() in ArgmaxDef.registry:
            d = ArgmaxDef.registry[x.decl().get_id()]
            lo, hi = x.arg(0), x.arg(1)
            j, e = Fresh.int("j"), Fresh.int("e")
            some = z3.Exists([e], z3.And(lo <= e, e < hi, d.at(d.valid, x, e)))
            ax.append(z3.Implies(some, z3.And(
                lo <= x, x < hi, d.at(d.valid, x, x),
                z3.ForAll([j], z3.Implies(z3.And(lo <= j, j < hi, d.at(d.valid, x, j)), d.at(d.body, x, j) <= d.at(d.body, x, x))),
                z3.ForAll([j], z3.Implies(z3.And(lo <= j, j < x, d.at(d.valid, x, j)), d.at(d.body, x, j) < d.at(d.body, x, x))))))
    # argmax congruence: two first-maximum searches over the same range whose values and validity agree at a
    # skolem index return the same index
    ams = [x for x in ground_subterms(terms).values() if z3.is_app(x) and x.decl().get_id() in ArgmaxDef.registry]
    for i_, x in enumerate(ams[:8]):
        for y in ams[i_ + 1:8]:
            same_range = x.arg(0).eq(y.arg(0)) and x.arg(1).eq(y.arg(1))
            if x.decl().eq(y.decl()) or not (same_range or ARGMAX_CONGRUENCE[0] == "semantic"):
                continue
            dx, dy = ArgmaxDef.registry[x.decl().get_id()], ArgmaxDef.registry[y.decl().get_id()]
            sk = Fresh.int("sk")
            agree = z3.Implies(z3.And(x.arg(0) <= sk, sk < x.arg(1)),
                               z3.And(dx.at(dx.body, x, sk) == dy.at(dy.body, y, sk), dx.at(dx.valid, x, sk) == dy.at(dy.valid, y, sk)))
            if not same_range:
                # contract option "argmax_congruence": "semantic" - the two ranges need only be equal, not the same terms
                # (a bound that is itself the result of a search appears under two function symbols)
                agree = z3.And(x.arg(0) == y.arg(0), x.arg(1) == y.arg(1), agree)
            ax.append(z3.Implies(agree, x == y))
    # ground instances of the minimality axiom of one First application at another application of the
    # same definition (what is needed to show that two searches return the same index)
    for apps in firsts.values():
        for x in apps[:6]:
            d = FirstDef.registry[x.decl().get_id()]
            for y in apps[:6]:
                if y is not x:
                    ax.append(z3.Implies(z3.And(x.arg(0) <= y, y < x), z3.Not(d.body_at(x, y))))
    return ax


def sum_apps(terms):
    seen = ground_subterms(terms)
    out = []
    for x in seen.values():
        if z3.is_app(x) and x.decl().get_id() in SumDef.registry:
            out.append(x)
    return out


def _index_free_factors(body, bv):
    """factors f of the product/quotient `body` that do not mention the bound variable bv
    (body == f * rest); numerals excluded"""
    out = []
    work = [(body, False)]
    while work:
        t, inverted = work.pop(0)
        if z3.is_app(t) and t.decl().kind() == z3.Z3_OP_MUL and not inverted:
            work = [(c, False) for c in t.children()] + work
            continue
        if z3.is_app(t) and t.decl().kind() == z3.Z3_OP_DIV and not inverted:
            work = [(t.arg(0), False), (t.arg(1), True)] + work
            continue
        if z3.is_rational_value(t) or z3.is_int_value(t) or not z3.is_real(t):
            continue
        if any(c.eq(bv) for c in free_consts(t)):
            continue
        out.append(z3.RealVal(1) / t if inverted else t)
    return out


def sum_axioms(terms, rounds=1, done=None, signs=True, pairs=True, monotone=False):
    """Instances of the lemma schemas (DESIGN §2.7) for the Sum applications in `terms`:
      empty          hi <= lo -> S == 0
      sign           (body(sk) >= 0 on the range) -> S >= 0,  likewise <= 0 and == 0   (one skolem per application)
      congruence     for every pair: equal bounds and bodies equal at a skolem index -> equal sums
      monotone       (only with monotone=True, contract option "sum_monotone") for every pair over the same range:
                     bodies ordered at a skolem index -> sums ordered; additionally strictly ordered when the bodies are
                     strictly ordered at one of the goal's skolem indices inside the range (counting arguments: two counts
                     are equal and one set is contained in the other, so the sets are equal)
    All instances are valid statements about finite sums.  `done` carries state between calls: applications
    and pairs already treated, and applications that only occur inside sign instances (these are not
    expanded further, which keeps the instance set small: expansion follows congruence chains only)."""
    ax = []
    done = set() if done is None else done
    apps = sum_apps(terms)
    fresh = [a for a in apps if ("signed", a.get_id()) not in done] if signs else []
    sign_ax = []
    for a in apps:
        if ("empty", a.get_id()) not in done:
            done.add(("empty", a.get_id()))
            ax.append(z3.Implies(a.arg(1) <= a.arg(0), a == 0))
    for a in fresh:
        done.add(a.get_id())
        done.add(("signed", a.get_id()))
        d = SumDef.registry[a.decl().get_id()]
        lo, hi = a.arg(0), a.arg(1)
        sk = Fresh.int("sk")
        b = d.body_at(a, sk)
        rng = z3.And(lo <= sk, sk < hi)
        if getattr(sum_axioms, "_sks", None) is None:
            sum_axioms._sks = set()
        sum_axioms._sks.add(sk.decl().name())
        sign_ax += [z3.Implies(z3.Implies(rng, b >= 0), a >= 0), z3.Implies(z3.Implies(rng, b <= 0), a <= 0),
                    z3.Implies(z3.Implies(rng, b == 0), a == 0),
                    # sum_pos: non-empty range and positive terms
                    z3.Implies(z3.And(lo < hi, z3.Implies(rng, b > 0)), a > 0)]
    # Applications that appear only through sign instances *at a sign skolem index* are not expanded further
    # (they get their own empty/sign axioms once and are never paired); applications met there whose arguments
    # do not involve a sign skolem (e.g. a normalisation sum used as a factor) are ordinary applications.
    sign_sks = done.setdefault("sign_skolems", set()) if isinstance(done, dict) else None
    skset = getattr(sum_axioms, "_sks", None)
    if skset is None:
        skset = sum_axioms._sks = set()
    for f_ in sign_ax:
        for c_ in free_consts(f_):
            if c_.decl().name().startswith("sk!"):
                skset.add(c_.decl().name())

    def at_sign_skolem(x):
        return any(c_.decl().name() in skset for ch in x.children() for c_ in free_consts(ch))
    inner = [x for x in sum_apps(sign_ax) if x.get_id() not in done and ("empty", x.get_id()) not in done]
    extra_apps = []
    for x in inner:
        if not at_sign_skolem(x):
            extra_apps.append(x)
            continue
        done.add(x.get_id())
        done.add(("nopair", x.get_id()))
        d = SumDef.registry[x.decl().get_id()]
        lo, hi = x.arg(0), x.arg(1)
        sk = Fresh.int("sk")
        skset.add(sk.decl().name())
        b = d.body_at(x, sk)
        rng = z3.And(lo <= sk, sk < hi)
        sign_ax += [z3.Implies(hi <= lo, x == 0), z3.Implies(z3.Implies(rng, b >= 0), x >= 0), z3.Implies(z3.Implies(rng, b <= 0), x <= 0)]
    for y in sum_apps(sign_ax):
        if y.get_id() not in done and at_sign_skolem(y):
            done.add(y.get_id())
            done.add(("nopair", y.get_id()))
    apps = apps + [x for x in extra_apps if all(x.get_id() != a_.get_id() for a_ in apps)]
    # sum_split_last: two applications of the same definition with the same parameters whose upper bounds
    # differ by one:  S(lo, t+1) == S(lo, t) + body(t)   for lo <= t
    byd = {}
    for a in apps:
        byd.setdefault(a.decl().get_id(), []).append(a)
    for grp in byd.values():
        for a in grp:
            for c in grp:
                if a.get_id() == c.get_id():
                    continue
                key = ("step", a.get_id(), c.get_id())
                if key in done:
                    continue
                done.add(key)
                if not a.arg(0).eq(c.arg(0)) or any(not x.eq(y) for x, y in zip(a.children()[2:], c.children()[2:])):
                    continue
                d_ = z3.simplify(a.arg(1) - c.arg(1))
                if z3.is_int_value(d_) and d_.as_long() == 1:
                    dd = SumDef.registry[a.decl().get_id()]
                    ax.append(z3.Implies(c.arg(0) <= c.arg(1), a == c + dd.body_at(c, c.arg(1))))
    pairable = [a for a in apps if ("nopair", a.get_id()) not in done] if pairs else []
    for i, a in enumerate(pairable):
        for c in pairable[i + 1:]:
            key = (min(a.get_id(), c.get_id()), max(a.get_id(), c.get_id()))
            if key in done:
                continue
            done.add(key)
            # only sums over syntactically identical ranges are compared (keeps congruence chains from
            # fanning out; a needed comparison over provably-but-not-syntactically equal ranges is lost: incomplete, sound)
            if not (z3.simplify(a.arg(0)).eq(z3.simplify(c.arg(0))) and z3.simplify(a.arg(1)).eq(z3.simplify(c.arg(1)))):
                continue
            # ... and only applications whose parameter sets are comparable (one contained in the other): sums
            # instantiated at different skolem indices are never needed equal
            pa = {k_.get_id() for x in a.children()[2:] for k_ in free_consts(x)}
            pc = {k_.get_id() for x in c.children()[2:] for k_ in free_consts(x)}
            if not (pa <= pc or pc <= pa):
                continue
            da = SumDef.registry[a.decl().get_id()]
            dc = SumDef.registry[c.decl().get_id()]
            sk = Fresh.int("sk")
            ax.append(z3.Implies(
                z3.And(a.arg(0) == c.arg(0), a.arg(1) == c.arg(1),
                       z3.Implies(z3.And(a.arg(0) <= sk, sk < a.arg(1)),
                                  da.body_at(a, sk) == dc.body_at(c, sk))),
                a == c))
            if monotone:
                points = [k_ for k_ in {c_.get_id(): c_ for t_ in terms for c_ in free_consts(t_)}.values()
                          if z3.is_int(k_) and k_.decl().name().startswith("sk_")][:4]
                for x_, y_ in ((a, c), (c, a)):
                    dx, dy = SumDef.registry[x_.decl().get_id()], SumDef.registry[y_.decl().get_id()]
                    sk3 = Fresh.int("sk")
                    lo_, hi_ = x_.arg(0), x_.arg(1)
                    le_all = z3.Implies(z3.And(lo_ <= sk3, sk3 < hi_), dx.body_at(x_, sk3) <= dy.body_at(y_, sk3))
                    ax.append(z3.Implies(le_all, x_ <= y_))
                    for j_ in points:
                        ax.append(z3.Implies(z3.And(le_all, lo_ <= j_, j_ < hi_, dx.body_at(x_, j_) < dy.body_at(y_, j_)), x_ < y_))
            # sum_lin (scalar factor): body_x(k) == f * body_y(k) on the range  ==>  x == f * y, for the factors f of
            # body_x that do not depend on the summation index
            for x_, y_ in ((a, c), (c, a)):
                dx, dy = SumDef.registry[x_.decl().get_id()], SumDef.registry[y_.decl().get_id()]
                factors = _index_free_factors(dx.body, dx.bv)
                amap = list(zip(dx.params, x_.children()[2:]))
                for f_ in factors[:3]:
                    fa = z3.substitute(f_, *amap) if amap else f_
                    sk2 = Fresh.int("sk")
                    ax.append(z3.Implies(
                        z3.And(x_.arg(0) == y_.arg(0), x_.arg(1) == y_.arg(1),
                               z3.Implies(z3.And(x_.arg(0) <= sk2, sk2 < x_.arg(1)),
                                          dx.body_at(x_, sk2) == fa * dy.body_at(y_, sk2))),
                        x_ == fa * y_))
    return ax + sign_ax


def mentions(t, const_ids=(), func_ids=()):
    """Does term t mention any of the given constants / function symbols, also inside the
    bodies of Sum definitions reachable from it?"""
    seen_defs = set()
    stack = [t]
    while stack:
        cur = stack.pop()
        for x in subterms(cur).values():
            if z3.is_app(x):
                if z3.is_const(x) and x.get_id() in const_ids:
                    return True
                did = x.decl().get_id()
                if x.num_args() > 0 and did in func_ids:
                    return True
                for reg_ in (SumDef.registry, ExtDef.registry, FirstDef.registry, ArgmaxDef.registry):
                    if did in reg_ and did not in seen_defs:
                        seen_defs.add(did)
                        stack.append(reg_[did].body)
                        if reg_ is ArgmaxDef.registry:
                            stack.append(reg_[did].valid)
    return False


def subst_deep(t, const_map=(), func_map=()):
    """substitute constants [(c, term)] and functions [(f, body-with-Var)] in t, rebuilding
    Sum definitions whose bodies mention a substituted *function* (constants reach Sum bodies
    through their parameter lists)."""
    if not is_sym(t):
        return t
    fids = {f.get_id() for f, _ in func_map}
    if func_map:
        repl = []
        for x in subterms(t).values():
            if z3.is_app(x) and x.decl().get_id() in SumDef.registry:
                d = SumDef.registry[x.decl().get_id()]
                if mentions(d.body, (), fids):
                    nb = subst_deep(d.body, (), func_map)
                    params = [c for c in free_consts(nb) if not c.eq(d.bv)]
                    params.sort(key=lambda c: c.decl().name())
                    nd = SumDef(d.bv, nb, params)
                    # arguments: old params keep their actuals, new params are themselves
                    amap = {p.get_id(): a for p, a in zip(d.params, x.children()[2:])}
                    args = [amap.get(p.get_id(), p) for p in params]
                    repl.append((x, nd.f(x.arg(0), x.arg(1), *args)))
        if repl:
            t = z3.substitute(t, *repl)
        t = z3.substitute_funs(t, *func_map)
    if const_map:
        t = z3.substitute(t, *[(c, to_z3(v)) for c, v in const_map])
    return t


# --------------------------------------------------------------------------- nonlinear abstraction
MULF = z3.Function("mul_abs", RealS, RealS, RealS)
MULFI = z3.Function("mul_abs_i", IntS, IntS, IntS)
DIVF = z3.Function("div_abs", RealS, RealS, RealS)


_signed = set()


PH1 = z3.Function("mul_sym_h1", RealS, RealS)
PH2 = z3.Function("mul_sym_h2", RealS, RealS)
PG = z3.Function("mul_sym", RealS, RealS, RealS)


# canonical order of the factors of an abstracted product: by term id (default), or - contract option
# "nl_factor_order": "symbol" - by function symbol first.  Products of five or more factors are abstracted as one
# left-nested chain in that order (only 3 and 4 factors get their other association orders), so two instances of the same
# expression at different index terms (code at i, specification at lo + c) only get the same chain if the order does not
# depend on creation order.  Any order is sound: the abstraction is satisfied by the real product.
NL_ORDER = ["id"]


def _factor_key(c):
    if NL_ORDER[0] == "symbol":
        return ((c.decl().name() if z3.is_app(c) else ""), c.get_id())
    return c.get_id()


def abstract_nonlinear(fs, symmetric=False):
    _signed.clear()
    return _abstract_nonlinear(fs, symmetric)


def _abstract_nonlinear(fs, symmetric=False):
    """Replaces products of two or more non-numeral factors (and divisions by non-numerals) by
    applications of uninterpreted functions, arguments in a canonical order.  Every model of the
    original formulas is a model of the abstraction (take mul_abs = *), so `unsat` of the
    abstraction implies `unsat` of the original: sound for discharging, useless for refuting."""
    memo = {}
    keep = []          # every memoised term is kept alive: z3 recycles the ids of freed terms (e.g. instantiated quantifier bodies),
                       # and a recycled id would hit the memo entry of a different, dead term (found by a sub-agent: unsound `unsat`)
    products = {}      # ground products of 3 or 4 factors: their other association orders are asserted equal below

    def isnum(x):
        return z3.is_rational_value(x) or z3.is_int_value(x)

    def rb(t):
        k = t.get_id()
        if k in memo:
            return memo[k][1]
        keep.append(t)
        if z3.is_quantifier(t):
            n = t.num_vars()
            cs = [z3.Const(Fresh.name("qv"), t.var_sort(i)) for i in range(n)]
            body = z3.substitute_vars(t.body(), *reversed(cs))
            nb = rb(body)
            # explicit patterns (given by a contract for a hypothesis whose inferred patterns could loop) are kept
            pats = []
            for pi in range(t.num_patterns()):
                pts = [rb(z3.substitute_vars(c, *reversed(cs))) for c in t.pattern(pi).children()]
                pats.append(z3.MultiPattern(*pts) if len(pts) > 1 else pts[0])
            r = (z3.ForAll(cs, nb, patterns=pats) if t.is_forall() else z3.Exists(cs, nb, patterns=pats)) if pats else \
                (z3.ForAll(cs, nb) if t.is_forall() else z3.Exists(cs, nb))
        elif z3.is_app(t) and t.num_args() > 0:
            ch = [rb(c) for c in t.children()]
            kind = t.decl().kind()
            if kind == z3.Z3_OP_MUL:
                if z3.is_int(t) and all(z3.is_int(c) for c in ch) and sum(1 for c in ch if not isnum(c)) >= 2:
                    nums = [c for c in ch if isnum(c)]
                    rest = [c for c in ch if not isnum(c)]
                    acc = rest[0]
                    for c in rest[1:]:
                        acc = MULFI(acc, c)
                    for nn in nums:
                        acc = nn * acc
                    memo[k] = (t, acc)      # the key term is kept alive: z3 recycles the ids of freed terms
                    return acc
                # flatten nested products and order the factors canonically (hash-consed ids): a*(b*c),
                # (c*a)*b, ... all become the same application
                flat, work = [], list(t.children())
                while work:
                    c = work.pop(0)
                    if z3.is_app(c) and c.decl().kind() == z3.Z3_OP_MUL:
                        work = list(c.children()) + work
                    else:
                        flat.append(rb(c))
                nums = [c for c in flat if isnum(c)]
                rest = sorted((c for c in flat if not isnum(c)), key=_factor_key)
                if len(rest) >= 2:
                    rest = [to_real(c) for c in rest]
                    acc = rest[0]
                    for c in rest[1:]:
                        acc = MULF(acc, c)
                    if len(rest) >= 3:
                        products[tuple(c.get_id() for c in rest)] = (rest, acc)
                    for nn in nums:
                        acc = to_real(nn) * acc
                    r = acc
                else:
                    r = t.decl()(*ch)
            elif kind == z3.Z3_OP_DIV and not isnum(ch[1]):
                r = DIVF(to_real(ch[0]), to_real(ch[1]))
            else:
                try:
                    r = t.decl()(*ch)
                except Exception:
                    r = t
        else:
            r = t
        memo[k] = (t, r)          # (t kept alive, see above: a recycled id would alias an unrelated term)
        return r
    out = [rb(f) for f in fs]
    x, y = z3.Reals("x!c y!c")
    out.append(z3.ForAll([x, y], MULF(x, y) == MULF(y, x), patterns=[MULF(x, y)]))
    # numerals of the problem: quotients are cross-multiplied against them (t = a/b, b > 0: t < c <=> a < c*b,
    # which is linear in the abstracted terms because c is a numeral)
    numerals = {}
    for t in ground_subterms(out).values():
        if z3.is_rational_value(t) or z3.is_int_value(t):
            q = Fraction(t.numerator_as_long(), t.denominator_as_long()) if z3.is_rational_value(t) else Fraction(t.as_long())
            numerals[q] = to_real(to_z3(q))
    numerals = [numerals[q] for q in sorted(numerals, key=lambda q: (abs(q), q))[:16]]
    # sign rules of * and / as ground instances (valid for the real operations)
    for _ in range(2):
        g = ground_subterms(out)
        extra = []
        for t in g.values():
            if not z3.is_app(t) or t.get_id() in _signed:
                continue
            if t.decl().eq(MULF):
                a, b = t.arg(0), t.arg(1)
                extra += [z3.Implies(z3.And(a >= 0, b >= 0), t >= 0), z3.Implies(z3.And(a <= 0, b <= 0), t >= 0),
                          z3.Implies(z3.And(a >= 0, b <= 0), t <= 0), z3.Implies(z3.And(a <= 0, b >= 0), t <= 0),
                          z3.Implies(z3.Or(a == 0, b == 0), t == 0), z3.Implies(t == 0, z3.Or(a == 0, b == 0)),
                          z3.Implies(z3.And(a > 0, b > 0), t > 0), z3.Implies(z3.And(a < 0, b < 0), t > 0),
                          z3.Implies(a == 1, t == b), z3.Implies(b == 1, t == a)]
                if a.eq(b):
                    extra.append(t >= 0)
            elif t.decl().eq(DIVF):
                a, b = t.arg(0), t.arg(1)
                extra += [z3.Implies(z3.And(a >= 0, b > 0), t >= 0), z3.Implies(z3.And(a <= 0, b > 0), t <= 0),
                          z3.Implies(z3.And(a >= 0, b < 0), t <= 0), z3.Implies(z3.And(a <= 0, b < 0), t >= 0),
                          z3.Implies(z3.And(a > 0, b > 0), t > 0), z3.Implies(a == 0, t == 0),
                          z3.Implies(b == 1, t == a),
                          # comparison of a quotient with one (b > 0)
                          z3.Implies(z3.And(b > 0, a < b), t < 1), z3.Implies(z3.And(b > 0, a <= b), t <= 1),
                          z3.Implies(z3.And(b > 0, a > b), t > 1), z3.Implies(z3.And(b > 0, a >= b), t >= 1),
                          z3.Implies(z3.And(b != 0, a == b), t == 1)]
                for c in numerals:
                    extra += [z3.Implies(b > 0, z3.And((t < c) == (a < c * b), (t <= c) == (a <= c * b))),
                              z3.Implies(b < 0, z3.And((t < c) == (a > c * b), (t <= c) == (a >= c * b)))]
            else:
                continue
            _signed.add(t.get_id())
        out += extra
    # associativity / commutativity beyond pairs: the binary chain of a product is built in the order of the factors' term
    # ids, which is an accident of creation order; two products whose factors are pairwise equal only *by hypothesis*
    # (relational clauses: the same result term re-instantiated with other input symbols) may therefore be nested
    # differently, and the chain has no associativity.  Every ground product of >= 3 factors is additionally equated with a
    # *symmetric* abstraction  G(sum_i h1(f_i), sum_i h2(f_i))  whose arguments are linear sums (AC in the arithmetic solver).
    # Sound: interpret h1(f) = log|f| (0 for f = 0), h2(f) = [f < 0] + sqrt(2) [f = 0], G(s, k + m sqrt 2) = 0 if m > 0 else
    # (-1)^k exp(s); then G(...) is the product, so every model of the original formulas extends to the abstraction.
    ground_ids = set(ground_subterms(out).keys()) if symmetric else set()
    for ids, (rest, acc) in (products.items() if symmetric else ()):
        if acc.get_id() not in ground_ids:
            continue
        s1, s2 = PH1(rest[0]), PH2(rest[0])
        for c in rest[1:]:
            s1, s2 = s1 + PH1(c), s2 + PH2(c)
        out.append(acc == PG(s1, s2))
    if symmetric:
        # distributivity (second stage only): a ground product with a sum as a factor equals the sum of the products; two rounds.
        def addends(t):
            if z3.is_app(t) and t.decl().kind() == z3.Z3_OP_ADD and t.num_args() <= 4:
                return list(t.children())
            if z3.is_app(t) and t.decl().kind() == z3.Z3_OP_SUB and t.num_args() == 2:
                return [t.arg(0), -t.arg(1)]
            return None

        def mulf(x, y):
            # numerals and numeral multiples stay linear
            for u, v in ((x, y), (y, x)):
                if isnum(u):
                    return u * v
                if z3.is_app(u) and u.decl().kind() == z3.Z3_OP_MUL and u.num_args() == 2 and isnum(u.arg(0)):
                    return u.arg(0) * mulf(u.arg(1), v)
                if z3.is_app(u) and u.decl().kind() == z3.Z3_OP_UMINUS:
                    return -mulf(u.arg(0), v)
            return MULF(x, y)
        done_d = set()
        for _ in range(2):
            extra = []
            for t in list(ground_subterms(out).values()):
                if not (z3.is_app(t) and t.decl().eq(MULF)) or t.get_id() in done_d:
                    continue
                done_d.add(t.get_id())
                a_, b_ = t.arg(0), t.arg(1)
                for x, y in ((a_, b_), (b_, a_)):
                    ys = addends(y)
                    if ys:
                        acc_ = None
                        for yi in ys:
                            m_ = mulf(x, yi)
                            acc_ = m_ if acc_ is None else acc_ + m_
                        extra.append(t == acc_)
                        break
            if not extra or len(extra) > 400:
                break
            out += extra
    return out


def quantifier_free(f):
    for x in subterms(f).values():
        if z3.is_quantifier(x):
            return False
    return True


def _hoist_forall(f):
    """f as a list of conjuncts in which universally quantified parts in positive position are at the top:
    A -> forall k. B   becomes   forall k. (A -> B);   conjunctions are split.  (equivalences)"""
    if z3.is_and(f):
        out = []
        for c in f.children():
            out.extend(_hoist_forall(c))
        return out
    if z3.is_app(f) and f.decl().kind() == z3.Z3_OP_ITE and z3.is_bool(f):
        c, a, b = f.children()
        return _hoist_forall(z3.Implies(c, a)) + _hoist_forall(z3.Implies(z3.Not(c), b))
    if z3.is_implies(f):
        a, b = f.arg(0), f.arg(1)
        out = []
        for g in _hoist_forall(b):
            if z3.is_quantifier(g) and g.is_forall():
                n = g.num_vars()
                cs = [z3.Const(Fresh.name("hq"), g.var_sort(i)) for i in range(n)]
                body = z3.substitute_vars(g.body(), *reversed(cs))
                out.append(z3.ForAll(cs, z3.Implies(a, body)))
            else:
                out.append(z3.Implies(a, g))
        return out
    return [f]


def instantiate_hoisted(fs, cap=2500, rounds=3):
    """Ground instances of the universally quantified formulas in `fs` at the integer index terms
    that occur as arguments of array / function applications (sound: instances of hypotheses).
    Nested quantifiers (forall i. A -> forall j. B) are hoisted and instantiated in later rounds."""
    idx = {}
    for t in ground_subterms(fs).values():
        if z3.is_app(t) and t.num_args() > 0 and t.decl().kind() == z3.Z3_OP_UNINTERPRETED:
            for a in t.children():
                if z3.is_int(a):
                    idx[a.get_id()] = a
    terms = list(idx.values())
    out = []
    todo = []
    for f in fs:
        todo.extend(g for g in _hoist_forall(f) if z3.is_quantifier(g) and g.is_forall())
    for _ in range(rounds):
        nxt = []
        for f in todo:
            n = f.num_vars()
            if n > 2 or any(f.var_sort(i) != IntS for i in range(n)):
                continue
            body = f.body()
            if n == 1:
                insts = [z3.substitute_vars(body, t) for t in terms]
            else:
                small = terms[:12]
                insts = [z3.substitute_vars(body, t1, t2) for t1 in small for t2 in small]
            for inst in insts:
                for g in _hoist_forall(inst):
                    out.append(g)
                    if z3.is_quantifier(g) and g.is_forall():
                        nxt.append(g)
                if len(out) >= cap:
                    return out
        todo = nxt
        if not todo:
            break
    return out


def _peel(f):
    """f = A1 -> (A2 -> ... forall x. B)  ==>  ([A1, A2, ...], quantifier) or None"""
    ants = []
    while z3.is_implies(f):
        ants.append(f.arg(0))
        f = f.arg(1)
    if z3.is_quantifier(f) and f.is_forall():
        return ants, f
    return None


def index_terms(fs, limit=14):
    """integer terms used as arguments of array / function applications, skolem-index terms first"""
    idx = {}
    for t in ground_subterms(fs).values():
        if z3.is_app(t) and t.num_args() > 0 and t.decl().kind() == z3.Z3_OP_UNINTERPRETED:
            for a in t.children():
                if z3.is_int(a) and not z3.is_int_value(a):
                    idx[a.get_id()] = a
    ts = list(idx.values())
    ts.sort(key=lambda t: (0 if "sk" in str(t) else 1, len(str(t))))
    return ts[:limit]


def instantiate_quantified(fs, cap=600, seen=None, terms=None):
    """Ground instances of the universally quantified formulas in `fs` (also those guarded by
    implications, as produced by earlier instantiation of nested quantifiers) at the integer index
    terms that occur as arguments of array / function applications.  Sound: instances of hypotheses."""
    seen = set() if seen is None else seen
    if terms is None:
        terms = index_terms(fs, limit=40)
    out = []

    def emit(ants, body):
        r = body
        for a in reversed(ants):
            r = z3.Implies(a, r)
        k = r.get_id()
        if k not in seen:
            seen.add(k)
            out.append(r)
    for f in fs:
        pe = _peel(f)
        if pe is None:
            continue
        ants, q = pe
        n = q.num_vars()
        if n > 2 or any(q.var_sort(i) != IntS for i in range(n)):
            continue
        body = q.body()
        if n == 1:
            for t in terms:
                emit(ants, z3.substitute_vars(body, t))
                if len(out) >= cap:
                    return out
        else:
            small = terms[:12]
            for t1 in small:
                for t2 in small:
                    emit(ants, z3.substitute_vars(body, t1, t2))
                    if len(out) >= cap:
                        return out
    return out


# --------------------------------------------------------------------------- trigger based instantiation
def _open_quantifier(f):
    """A1 -> forall x. (A2 -> forall y. B)  ==>  (consts, antecedents, B) with the bound variables
    replaced by fresh constants; None if f has no universal quantifier in that position"""
    consts, ants = [], []
    found = False
    while True:
        if z3.is_implies(f):
            ants.append(f.arg(0))
            f = f.arg(1)
            continue
        if z3.is_quantifier(f) and f.is_forall():
            n = f.num_vars()
            cs = [z3.Const(Fresh.name("pat"), f.var_sort(i)) for i in range(n)]
            f = z3.substitute_vars(f.body(), *reversed(cs))
            consts += cs
            found = True
            continue
        break
    if not found or not consts:
        return None
    return consts, ants, f


def _pattern_arg(a, cids):
    """a == c or a == c + k  ->  (c, k); ground -> None; else 'no'"""
    if z3.is_const(a) and a.get_id() in cids:
        return (a, 0)
    if z3.is_app(a) and a.decl().kind() == z3.Z3_OP_ADD and a.num_args() == 2:
        x, y = a.arg(0), a.arg(1)
        if z3.is_int_value(x):
            x, y = y, x
        if z3.is_const(x) and x.get_id() in cids and z3.is_int_value(y):
            return (x, y.as_long())
    if z3.is_app(a) and a.decl().kind() == z3.Z3_OP_SUB and a.num_args() == 2:
        x, y = a.arg(0), a.arg(1)
        if z3.is_const(x) and x.get_id() in cids and z3.is_int_value(y):
            return (x, -y.as_long())
    if not any(c.get_id() in cids for c in free_consts(a)):
        return None
    return "no"


def ematch(hyps, ground, seen, cap=400, per_hyp=40):
    """Instances of the universally quantified hypotheses obtained by matching their array / function
    applications against the ground applications occurring in `ground` (classic trigger-based
    instantiation, done here because the lemma-schema instances for Sum terms are generated by us
    and must see the instantiated bodies).  Sound: every result is an instance of a hypothesis."""
    defined = defined_function_ids()
    gapps = {}
    for t in ground_subterms(ground).values():
        if z3.is_app(t) and t.num_args() > 0 and t.decl().kind() == z3.Z3_OP_UNINTERPRETED and t.decl().get_id() not in defined:
            gapps.setdefault(t.decl().get_id(), {})[t.get_id()] = t
    out = []
    for h in hyps:
        op = _open_quantifier(h)
        if op is None:
            continue
        consts, ants, body = op
        cids = {c.get_id() for c in consts}
        # candidate patterns
        pats = []
        scan = [body] + ants
        for root in scan:
            for t in subterms(root).values():
                if z3.is_app(t) and t.num_args() > 0 and t.decl().kind() == z3.Z3_OP_UNINTERPRETED and t.decl().get_id() not in defined:
                    args = [_pattern_arg(a, cids) for a in t.children()]
                    if any(a == "no" for a in args) or not any(isinstance(a, tuple) for a in args):
                        continue
                    pats.append((t, args))
        if not pats:
            continue
        # partial assignments from every pattern x ground application
        partial = []
        for t, args in pats:
            for g in gapps.get(t.decl().get_id(), {}).values():
                asg = {}
                ok = True
                for a, ga, pa in zip(args, g.children(), t.children()):
                    if a is None:
                        if not pa.eq(ga):
                            ok = False
                            break
                        continue
                    c, k = a
                    val = ga if k == 0 else z3.simplify(ga - k)
                    if c.get_id() in asg and not asg[c.get_id()][1].eq(val):
                        ok = False
                        break
                    asg[c.get_id()] = (c, val)
                if ok and asg:
                    partial.append(asg)
        # join partial assignments until all variables are covered
        full = []
        seen_asg = set()

        def key(asg):
            return tuple(sorted((k, v[1].get_id()) for k, v in asg.items()))

        work = []
        for a in partial:
            k = key(a)
            if k not in seen_asg:
                seen_asg.add(k)
                work.append(a)
        rounds = 0
        while work and rounds < 3:
            rounds += 1
            nxt = []
            for a in work:
                if len(a) == len(consts):
                    full.append(a)
                    continue
                for b in partial:
                    if any(k in a and not a[k][1].eq(v[1]) for k, v in b.items()):
                        continue
                    if all(k in a for k in b):
                        continue
                    m = dict(a)
                    m.update(b)
                    k = key(m)
                    if k not in seen_asg:
                        seen_asg.add(k)
                        nxt.append(m)
                    if len(nxt) > 600:
                        break
            work = nxt
        for a in work:
            if len(a) == len(consts):
                full.append(a)
        emitted = 0
        for a in full:
            if emitted >= per_hyp:
                break
            subs = [a[c.get_id()] for c in consts]
            r = z3.substitute(body, *subs)
            for an in reversed(ants):
                r = z3.Implies(z3.substitute(an, *subs), r)
            k = r.get_id()
            if k in seen:
                continue
            seen.add(k)
            out.append(r)
            emitted += 1
            if len(out) >= cap:
                return out
    return out
