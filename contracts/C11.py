"""C11 - Wind inversion closes the source-term balance.

What a contract can decide here is the *wiring* around the root finder: which equation is handed to it, what happens on
its exits, and what is returned next to it.  That the iteration converges to a root is not contract-decidable (a hybrid
Newton/secant/bisection/Aitken scheme on an uninterpreted function); the closure of the balance at the returned wind and
the non-degeneracy clause are a bounded stand-in on the compiled code (C11_bounded.py), labelled bounded.

Under contract (real source, re-read on every run):
  solvers.py::numba_newton_raphson            full exit contract for an arbitrary function, guess, bounds, tolerances (contracts/newton_common.py, shared with
                                              C10): range [min(lo, g-|g|/2), max(hi, g+|g|/2)], bracket invariant (function values, strict sign change, contains the
                                              iterate, never lost, only shrinks), converged exit = last step passes the tolerance test against the last evaluation
                                              point, exhausted exit returns only with errors off, only ValueError escapes
  wind_inversion.py::_u10_iteration_function  F(0) = -target;  F(u) = integral of the input at (u, given direction) - target - rate of change
                                              integrated where the input is positive (active region)
  wind_inversion.py::spectral_time_derivative_in_active_region
  wind_inversion.py::_u10_from_bulk_rate_point  target 0 -> (0, given direction); solver called on F with this spectrum/target, bounds (0, inf),
                                              step tolerance 0.01 (rtol 1, errors on, 100 iterations, no Aitken step); any exception -> NaN; without direction
                                              iteration the direction is returned unchanged and (solver's exit contract at the call site) a speed that comes out
                                              of the solver left it by convergence: last step < 0.01 m/s from the last evaluation point, speed >= 0
  wind_inversion.py::_u10_from_spectra_point  target = -(integrated dissipation), direction = dissipation-weighted mean direction of
                                              _bulk_dissipation_direction_point
  dissipation.py::_bulk_dissipation_direction_point   bulk = integral of the point dissipation, direction = atan2 of the k-weighted sums, mod 360
  wind_inversion.py::_u10_from_spectra        member p of the batch is the point function on row p (own depth, own guess, own rate of change)
"""
import z3 as _z3
from pyvc.api import *
from pyvc import terms as _T
from pyvc.loops import LoopContract
from pyvc.run import Bounded
from pyvc.values import Opaque as _Opaque, sym_array as _sym_array, Arr as _Arr
from pyvc.terms import Unsupported
from contracts.C11_bounded import bounded_inversion

PROPERTY = "C11"
LEVEL = "other"
B = "wavephysics/balance/"
WI = B + "wind_inversion.py::"

# ------------------------------------------------------------------------------------------------ the root finder
# the exit contract of numba_newton_raphson is shared with C10: contracts/newton_common.py (verified there once, for an arbitrary function)
from contracts.newton_common import newton, newton_at_call, FnModel, FZ, _conv_test as _newton_conv_test


# ------------------------------------------------------------------------------------------------ the balance function F
GF = _z3.Function("point_input", _T.IntS, _T.IntS, _T.RealS, _T.RealS, _T.RealS, _T.RealS, _T.RealS)   # (i, j, u10, direction, depth, z0)
SF = _z3.Function("point_dissipation", _T.IntS, _T.IntS, _T.RealS, _T.RealS)                              # (i, j, depth)
KF = _z3.Function("wavenumber_of", _T.RealS, _T.RealS, _T.RealS)                                          # (omega, depth)


def _grid(mk, nf, nd):
    return mk.record("spectral_grid", {"radian_frequency": ("array", (nf,)), "radian_direction": ("array", (nd,)),
                                       "frequency_step": ("array", (nf,)), "direction_step": ("array", (nd,))})


def _same(x, y):
    """identity of two raw values (the same heap object / the same opaque)"""
    return x is y or (hasattr(x, "id") and hasattr(y, "id") and x.id == y.id)


class GenModel:
    """`wind_source_term_function`: an arbitrary field G[i, j] depending on (wind speed, wind direction, depth, roughness); the call must
    hand over the spectrum, grid and parameters of the enclosing call (identity), which is an obligation"""

    def __init__(self, own):
        self.own = own          # names -> values of the enclosing call, filled by the params builder

    def __call__(self, interp, st, args, kwargs):
        names = ["variance_density", "wind", "depth", "roughness_length", "spectral_grid", "parameters"]
        b = dict(zip(names, args))
        b.update(kwargs)
        ctx = interp.ctx
        if set(b) != set(names):
            raise Unsupported("wind source term function: arguments")
        for k in ("variance_density", "spectral_grid", "parameters"):
            ctx.oblige(st, f"pre.wind_source_term_function.own_{k}", _same(b[k], self.own[k]))
        w = st.deref(b["wind"])
        u, wd = _T.to_z3(_T.to_real(w[0])), _T.to_z3(_T.to_real(w[1]))
        ctx.oblige(st, "pre.wind_source_term_function.wind_type_forwarded", w[2] == self.own["wind_type"])
        dep, z0 = _T.to_z3(_T.to_real(st.deref(b["depth"]))), _T.to_z3(_T.to_real(st.deref(b["roughness_length"])))
        shp = st.deref(self.own["variance_density"]).shape
        return st.alloc(_Arr(shp, lambda idx: GF(_T.to_z3(idx[0]), _T.to_z3(idx[1]), u, wd, dep, z0), (), "real", "generation"), "generation")


def _z0_result(mk, a):
    z0 = mk.real("z0")
    mk.st.ghost["z0"] = z0
    mk.st.ghost["z0_args"] = (a.guess, a.variance_density, a.wind, a.depth, a.spectral_grid, a.parameters)
    return z0


ROUGHNESS = CalleeContract(B + "stress.py::_roughness_estimate_point", _z0_result, assumed=True,
                           note="roughness estimate: some real (its NaN-or-positive contract is C10); the value is referred to as z0 in the postcondition")


def _p_iterfn(mk):
    nf, nd = mk.size("nf"), mk.size("nd")
    own = {}
    E, g, par = mk.array("E", (nf, nd)), _grid(mk, nf, nd), _Opaque("parameters")
    own.update({"variance_density": E, "spectral_grid": g, "parameters": par, "wind_type": "u10"})
    return {"u10": mk.real("u10"), "memory_list": mk.st.alloc([mk.real("z0_memory")], "list"), "variance_density": E,
            "wind_guess": (mk.real("u_guess"), mk.real("wdir"), "u10"), "depth": mk.real("depth"),
            "wind_source_term_function": GenModel(own), "tail_stress_parametrization_function": _Opaque("tail"),
            "spectral_grid": g, "parameters": par, "bulk_rate": mk.real("target"), "time_derivative_spectrum": mk.array("dEdt", (nf, nd))}


def _F_post(a, r):
    g = a.spectral_grid
    nf, nd = a.variance_density.shape
    if "z0" not in a._ghost:                      # path u10 == 0: no roughness estimate, no source term
        return eq(r, -a.bulk_rate)
    z0 = a._ghost["z0"]
    G = lambda i, j: GF(_T.to_z3(i), _T.to_z3(j), _T.to_z3(a.u10), _T.to_z3(a.wind_guess[1]), _T.to_z3(a.depth), z0)
    bulk_in = Sum(0, nf, lambda i: Sum(0, nd, lambda j: G(i, j) * g["frequency_step"][i] * g["direction_step"][j]))
    active = Sum(0, nf, lambda i: Sum(0, nd, lambda j: If(G(i, j) > 0, a.time_derivative_spectrum[i, j] * g["direction_step"][j] * g["frequency_step"][i], 0)))
    return eq(r, bulk_in - a.bulk_rate - active)


iteration_function = Contract(
    WI + "_u10_iteration_function", params=_p_iterfn,
    requires=[("dims", lambda a: And(a.variance_density.shape[0] >= 0, a.variance_density.shape[1] >= 0))],
    ensures=[("zero_wind_gives_minus_target", lambda a, r: implies(a.u10 == 0, eq(r, -a.bulk_rate))),
             ("input_minus_target_minus_rate_of_change_in_active_bins", _F_post),
             ("roughness_estimate_for_this_wind_and_spectrum", lambda a, r: True if "z0" not in a._ghost else And(
                 _same(a._ghost["z0_args"][1], a._raw["variance_density"]), eq(a._ghost["z0_args"][2][0], a.u10),
                 eq(a._ghost["z0_args"][2][1], a.wind_guess[1]), a._ghost["z0_args"][2][2] == "u10", eq(a._ghost["z0_args"][3], a.depth),
                 _same(a._ghost["z0_args"][4], a._raw["spectral_grid"]), _same(a._ghost["z0_args"][5], a._raw["parameters"]))),
             ("roughness_remembered_for_the_next_call", lambda a, r: True if "z0" not in a._ghost else eq(a.memory_list[0], a._ghost["z0"]))],
    callees={ROUGHNESS.target: ROUGHNESS},
)


def _p_active(mk):
    nf, nd = mk.size("nf"), mk.size("nd")
    return {"time_derivative_spectrum": mk.array("dEdt", (nf, nd)), "generation": mk.array("G", (nf, nd)), "spectral_grid": _grid(mk, nf, nd)}


def _native_active(kw, inst):
    import numpy as np
    from contracts.C08 import _typed
    out = _typed(kw)
    for k in ("time_derivative_spectrum", "generation"):
        out[k] = np.ascontiguousarray(out[k], dtype="float64")
    return out


def _wit_active():
    import numpy as np
    rng = np.random.default_rng(5)
    nf, nd = 6, 8
    G = rng.normal(0, 1, (nf, nd))
    G[rng.random((nf, nd)) < 0.4] = 0.0                    # bins without wind input: exactly zero
    g = {"radian_frequency": np.linspace(0.3, 3, nf), "radian_direction": np.linspace(0, 2 * np.pi, nd, endpoint=False),
         "frequency_step": rng.uniform(0.01, 0.05, nf), "direction_step": rng.uniform(5, 15, nd)}
    return ("", _native_active({"time_derivative_spectrum": rng.normal(0, 1, (nf, nd)), "generation": G, "spectral_grid": g}, ""))


active_region = Contract(
    WI + "spectral_time_derivative_in_active_region", params=_p_active, native=_native_active, witness=[_wit_active],
    requires=[("dims", lambda a: And(a.generation.shape[0] >= 0, a.generation.shape[1] >= 0))],
    ensures=[("rate_of_change_integrated_where_input_is_positive", lambda a, r: eq(r, Sum(0, a.generation.shape[0], lambda i: Sum(
        0, a.generation.shape[1], lambda j: If(a.generation[i, j] > 0, a.time_derivative_spectrum[i, j] * a.spectral_grid["direction_step"][j]
                                               * a.spectral_grid["frequency_step"][i], 0)))))],
)


# ------------------------------------------------------------------------------------------------ inversion for a given target
# the solver at its call site: the exit contract proved in contracts/newton_common.py (preconditions are call-site obligations, exit clauses assumed for
# the result, ValueError may escape); every call is recorded as (raw arguments, exit record)
NEWTON_AT_CALL = newton_at_call("solver_calls")
STRESS = CalleeContract(B + "stress.py::_total_stress_point", lambda mk, a: (mk.real("stress"), mk.real("stress_direction")), assumed=True,
                        note="total stress and its direction: some reals (used only when the direction is iterated)")


def _p_bulk_point(direction_iteration):
    def p(mk):
        nf, nd = mk.size("nf"), mk.size("nd")
        return {"bulk_rate": mk.real("target"), "variance_density": mk.array("E", (nf, nd)), "guess_u10": mk.real("guess_u10"),
                "guess_direction": mk.real("guess_direction"), "depth": mk.real("depth"), "spectral_grid": _grid(mk, nf, nd),
                "parameters": _Opaque("parameters"), "wind_source_term_function": _Opaque("wind_source_term_function"),
                "tail_stress_parametrization_function": _Opaque("tail"), "time_derivative_spectrum": mk.array("dEdt", (nf, nd)),
                "direction_iteration": direction_iteration}
    return p


def _is_nan(x):
    return isinstance(x, _T.XR) and x.nan is True or (hasattr(x, "_v") and isinstance(getattr(x, "_v"), _T.XR))


def _nan_or_nonneg(v):
    import math
    if isinstance(v, float):
        return math.isnan(v) or v >= 0
    if isinstance(v, _T.XR):
        return Or(v.nan, _T.cmp('>=', v.v, 0))
    return v >= 0


def _solved_equation(a, r):
    """every solver call is for F of *this* spectrum, depth, target and rate of change, from a non-negative start, within (0, inf), step tolerance 0.01"""
    calls = a._ghost.get("solver_calls", ())
    cl = []
    for c, _x in calls:
        fa = c.function_arguments
        cl += [getattr(c.function, "qualname", "") == "_u10_iteration_function", _same(fa[1], a._raw["variance_density"]),
               fa[2][2] == "u10", _same(fa[3], a._raw["depth"]) or eq(fa[3], a.depth), _same(fa[4], a._raw["wind_source_term_function"]),
               _same(fa[5], a._raw["tail_stress_parametrization_function"]), _same(fa[6], a._raw["spectral_grid"]), _same(fa[7], a._raw["parameters"]),
               eq(fa[8], a.bulk_rate), _same(fa[9], a._raw["time_derivative_spectrum"]), eq(fa[2][0], c.guess),
               c.hard_bounds[0] == 0, _T._is_inf(c.hard_bounds[1]), c.atol == _T.from_float(1.0e-2), c.rtol == 1, c.error_on_max_iter is True,
               c.max_iterations == 100, c.aitken_acceleration is False]
    return And(*cl) if cl else True


def _bp_result_clauses(direction_iteration):
    cl = [("zero_target_gives_zero_wind_and_the_given_direction", lambda a, r: implies(a.bulk_rate == 0, And(eq(r[0], 0), eq(r[1], a.guess_direction)))),
          ("nan_or_nonnegative_speed", lambda a, r: _nan_or_nonneg(r[0]))]
    if not direction_iteration:
        cl.append(("direction_returned_unchanged", lambda a, r: eq(r[1], a.guess_direction)))
    return cl


def _converged_exit(a, r):
    """a speed that comes out of the solver (errors on: only its convergence test lets it return): the last step |u - p| is below the 0.01 m/s step
    tolerance (and below max(p, 0.01): rtol = 1) for the previous iterate p >= 0, the point of the last evaluation of the balance; the speed is
    within the hard bounds [0, inf); with a bracket at exit it lies between two winds at which the balance has strictly opposite signs"""
    calls = a._ghost.get("solver_calls", ())
    if not calls:
        return True                              # zero target, or the solver raised (NaN)
    _c, x = calls[-1]
    tol = _T.from_float(1.0e-2)
    return And(len(calls) == 1, eq(r[0], x.result), x.converged, absv(x.result - x.previous) < tol,
               absv(x.result - x.previous) < If(absv(x.previous) >= tol, absv(x.previous), tol), x.previous >= 0, x.result >= 0,
               implies(x.bracketed, And(0 <= x.b_lo, x.b_lo < x.b_hi, x.b_lo <= x.result, x.result <= x.b_hi, x.F(x.b_lo) * x.F(x.b_hi) < 0)))


def _first_wind(a, r):
    calls = a._ghost.get("solver_calls", ())
    if not calls:
        return True
    return And(eq(calls[0][0].guess, a.guess_u10), eq(calls[0][0].function_arguments[2][1], a.guess_direction))


BP_INST = [("no_direction_iteration", _p_bulk_point(False)), ("direction_iteration", _p_bulk_point(True))]
bulk_rate_point = Contract(
    WI + "_u10_from_bulk_rate_point", instances=BP_INST,
    requires=[("guess_nonnegative", lambda a: a.guess_u10 >= 0)],
    ensures=_bp_result_clauses(False)[:2] + [(l, f, {"no_direction_iteration"}) for l, f in _bp_result_clauses(False)[2:]] + [
        ("solver_is_given_the_balance_of_this_spectrum_and_target", _solved_equation, {"no_direction_iteration"}),
        ("first_solve_starts_from_the_guess_wind", _first_wind, {"no_direction_iteration"}),
        ("returned_speed_left_the_solver_by_convergence_last_step_below_the_0.01_step_tolerance_within_bounds", _converged_exit, {"no_direction_iteration"})],
    callees={newton.target: NEWTON_AT_CALL, STRESS.target: STRESS},
    options={"loop_invariants": {"direction_iteration": {1: LoopContract(invariant=[("speed_nonnegative", lambda ns: ns.u10 >= 0)])}, "no_direction_iteration": {}},
             "result": lambda mk, a: (_T.xr(mk.real("u10_value"), mk.bool("u10_missing")), mk.real("direction"))},
)


# ------------------------------------------------------------------------------------------------ target and direction from the dissipation
class DisModel:
    """`dissipation_source_term_function`: an arbitrary field S[i, j] depending on the depth; must be given the caller's own objects"""

    def __init__(self, own):
        self.own = own

    def __call__(self, interp, st, args, kwargs):
        names = ["variance_density", "depth", "spectral_grid", "parameters"]
        b = dict(zip(names, args))
        b.update(kwargs)
        if set(b) != set(names):
            raise Unsupported("dissipation function: arguments")
        for k in ("variance_density", "spectral_grid", "parameters"):
            interp.ctx.oblige(st, f"pre.dissipation_source_term_function.own_{k}", _same(b[k], self.own[k]))
        dep = _T.to_z3(_T.to_real(st.deref(b["depth"])))
        shp = st.deref(self.own["variance_density"]).shape
        return st.alloc(_Arr(shp, lambda idx: SF(_T.to_z3(idx[0]), _T.to_z3(idx[1]), dep), (), "real", "dissipation"), "dissipation")


def _k_result(mk, a):
    w, d = mk.st.deref(a.angular_frequency), mk.st.deref(a.dep)
    if not isinstance(w, _Arr) or isinstance(d, _Arr):
        raise Unsupported("dispersion stub: (array, scalar) expected here")
    dz = _T.to_z3(_T.to_real(d))
    return mk.st.alloc(_Arr(w.shape, lambda ix: KF(_T.to_z3(_T.to_real(w.get(ix))), dz), (), "real", "k"), "k")


SOLVER_K = CalleeContract("wavetheory/lineardispersion.py::inverse_intrinsic_dispersion_relation", _k_result, assumed=True,
                          note="wavenumber of each radian frequency at the given depth (its accuracy is C07)")


def _p_bdd(mk):
    nf, nd = mk.size("nf"), mk.size("nd")
    E, g, par = mk.array("E", (nf, nd)), _grid(mk, nf, nd), _Opaque("parameters")
    return {"variance_density": E, "depth": mk.real("depth"), "dissipation_source_term_function": DisModel({"variance_density": E, "spectral_grid": g, "parameters": par}),
            "spectral_grid": g, "parameters": par}


def _bdd_direction(a, r):
    g = a.spectral_grid
    nf, nd = a.variance_density.shape
    dep = _T.to_z3(a.depth)
    S = lambda i, j: SF(_T.to_z3(i), _T.to_z3(j), dep)
    k = lambda i: KF(_T.to_z3(g["radian_frequency"][i]), dep)
    # dissipation is negative: the weights are -S k df dtheta (written as the sum of the negated terms)
    kx = Sum(0, nf, lambda i: Sum(0, nd, lambda j: -(k(i) * _T.uf("cos", g["radian_direction"][j]) * S(i, j) * g["frequency_step"][i] * g["direction_step"][j])))
    ky = Sum(0, nf, lambda i: Sum(0, nd, lambda j: -(k(i) * _T.uf("sin", g["radian_direction"][j]) * S(i, j) * g["frequency_step"][i] * g["direction_step"][j])))
    return eq(r[0], mod(_T.UF2["arctan2"](_T.to_z3(ky), _T.to_z3(kx)) * 180 / _T.PI, 360))


bulk_dissipation_direction = Contract(
    B + "dissipation.py::_bulk_dissipation_direction_point", params=_p_bdd,
    requires=[("dims", lambda a: And(a.variance_density.shape[0] >= 0, a.variance_density.shape[1] >= 0))],
    ensures=[("bulk_is_the_integrated_dissipation", lambda a, r: eq(r[1], Sum(0, a.variance_density.shape[0], lambda i: Sum(
        0, a.variance_density.shape[1], lambda j: SF(_T.to_z3(i), _T.to_z3(j), _T.to_z3(a.depth)) * a.spectral_grid["frequency_step"][i] * a.spectral_grid["direction_step"][j])))),
             ("direction_is_the_dissipation_weighted_mean_wave_direction", _bdd_direction),
             ("direction_in_0_360", lambda a, r: And(r[0] >= 0, r[0] < 360))],
    callees={SOLVER_K.target: SOLVER_K},
)


# ------------------------------------------------------------------------------------------------ one spectrum
def _bdd_result(mk, a):
    d, b = mk.real("dissipation_direction"), mk.real("dissipation_bulk")
    mk.st.ghost["bdd"] = (d, b, a)
    return (d, b)


BDD_AT_CALL = CalleeContract(bulk_dissipation_direction.target, _bdd_result, assumed=False,
                             note="proved above: (dissipation-weighted mean direction in [0, 360), integrated dissipation) of the spectrum it is given")


def _bp_call_result(mk, a):
    r = (_T.xr(mk.real("u10_value"), mk.bool("u10_missing")), mk.real("direction"))
    mk.st.ghost["bp"] = a
    return r


def _at_call(direction_iteration):
    def wrapped(fn):
        return lambda a, r: fn(a, r)
    return [(l, wrapped(f)) for l, f in _bp_result_clauses(direction_iteration)]


def _bp_at_call(direction_iteration):
    # the proved clauses of _u10_from_bulk_rate_point that speak about the result only (the same functions as above)
    return CalleeContract(bulk_rate_point.target, _bp_call_result, requires=bulk_rate_point.requires, ensures=_at_call(direction_iteration), assumed=False,
                          note="proved above (_u10_from_bulk_rate_point)")


def _p_point(direction_iteration):
    def p(mk):
        nf, nd = mk.size("nf"), mk.size("nd")
        return {"variance_density": mk.array("E", (nf, nd)), "guess_u10": mk.real("guess_u10"), "depth": mk.real("depth"),
                "wind_source_term_function": _Opaque("wind_source_term_function"), "tail_stress_parametrization_function": _Opaque("tail"),
                "dissipation_source_term_function": _Opaque("dissipation_source_term_function"), "parameters_generation": _Opaque("parameters_generation"),
                "parameters_dissipation": _Opaque("parameters_dissipation"), "spectral_grid": _grid(mk, nf, nd),
                "time_derivative_spectrum": mk.array("dEdt", (nf, nd)), "direction_iteration": direction_iteration}
    return p


def _point_wiring(a, r):
    d, b, da = a._ghost["bdd"]
    bp = a._ghost["bp"]
    raw = a._raw
    return And(_same(da.variance_density, raw["variance_density"]), _same(da.depth, raw["depth"]), _same(da.dissipation_source_term_function, raw["dissipation_source_term_function"]),
               _same(da.spectral_grid, raw["spectral_grid"]), _same(da.parameters, raw["parameters_dissipation"]),
               eq(bp.bulk_rate, -b), eq(bp.guess_direction, d), _same(bp.variance_density, raw["variance_density"]), _same(bp.guess_u10, raw["guess_u10"]),
               _same(bp.depth, raw["depth"]), _same(bp.spectral_grid, raw["spectral_grid"]), _same(bp.parameters, raw["parameters_generation"]),
               _same(bp.wind_source_term_function, raw["wind_source_term_function"]), _same(bp.tail_stress_parametrization_function, raw["tail_stress_parametrization_function"]),
               _same(bp.time_derivative_spectrum, raw["time_derivative_spectrum"]), bp.direction_iteration is a.direction_iteration)


POINT_INST = [("no_direction_iteration", _p_point(False)), ("direction_iteration", _p_point(True))]
spectra_point = Contract(
    WI + "_u10_from_spectra_point", instances=POINT_INST,
    requires=[("guess_nonnegative", lambda a: a.guess_u10 >= 0)],
    ensures=[("target_is_minus_the_integrated_dissipation_of_this_spectrum_and_its_direction_the_first_guess", _point_wiring),
             ("zero_dissipation_gives_zero_wind", lambda a, r: implies(a._ghost["bdd"][1] == 0, eq(r[0], 0))),
             ("nan_or_nonnegative_speed", lambda a, r: _nan_or_nonneg(r[0])),
             ("direction_is_the_dissipation_weighted_mean_direction", lambda a, r: eq(r[1], a._ghost["bdd"][0]), {"no_direction_iteration"})],
    callees={bulk_dissipation_direction.target: BDD_AT_CALL,
             bulk_rate_point.target: {"no_direction_iteration": _bp_at_call(False), "direction_iteration": _bp_at_call(True)}},
)


# ------------------------------------------------------------------------------------------------ the batch: member p gets the point result of row p
UPT = _z3.Function("point_u10", _T.IntS, _T.RealS, _T.RealS, _T.RealS)              # (row, guess, depth) -> speed (value part)
UPN = _z3.Function("point_u10_missing", _T.IntS, _T.RealS, _T.RealS, _T.BoolS)
DPT = _z3.Function("point_direction", _T.IntS, _T.RealS, _T.RealS, _T.RealS)


def _row_of3(st, view, batch):
    """p if `view` is syntactically batch[p, :, :] (probed at a generic cell), else None"""
    v, b = st.deref(view), st.deref(batch)
    if not isinstance(v, _Arr) or v.ndim != 2:
        return None
    i, j = _T.Fresh.int("pi"), _T.Fresh.int("pj")
    t = v.get((i, j))
    if _z3.is_app(t) and t.decl().eq(b.func) and t.num_args() == 3 and t.arg(1).eq(i) and t.arg(2).eq(j):
        return t.arg(0)
    return None


def _point_at_call(own):
    def result(mk, a):
        st = mk.st
        p = _row_of3(st, a.variance_density, own["variance_density"])
        q = _row_of3(st, a.time_derivative_spectrum, own["time_derivative_spectrum"])
        ok = p is not None and q is not None
        same = all(_same(getattr(a, k), own[k]) for k in (
            "wind_source_term_function", "tail_stress_parametrization_function", "dissipation_source_term_function", "parameters_generation",
            "parameters_dissipation", "spectral_grid")) and _same(a.direction_iteration, own["direction_iteration"])
        mk.ctx.oblige(st, "pre._u10_from_spectra_point.row_of_the_spectrum_and_of_the_rate_of_change", ok)
        mk.ctx.oblige(st, "pre._u10_from_spectra_point.callers_functions_grid_parameters_and_iteration_flag", same)
        if not ok:
            p = _T.Fresh.int("unknown_row")
            q = _T.Fresh.int("unknown_row")
        g, d = _T.to_z3(_T.to_real(st.deref(a.guess_u10))), _T.to_z3(_T.to_real(st.deref(a.depth)))
        gp, dp = st.deref(own["guess_u10"]).get((p,)), st.deref(own["depth"]).get((p,))
        mk.ctx.oblige(st, "pre._u10_from_spectra_point.same_member_for_spectrum_rate_of_change_guess_and_depth", And(p == q, g == _T.to_z3(gp), d == _T.to_z3(dp)))
        return (UPT(p, g, d), DPT(p, g, d))     # the speed may be NaN: for the batch loop it is an opaque float that is stored as it is
    return result


def _p_batch(direction_iteration):
    def p(mk):
        npnt, nf, nd = mk.size("np"), mk.size("nf"), mk.size("nd")
        own = {"variance_density": mk.array("E", (npnt, nf, nd)), "guess_u10": mk.array("guess_u10", (npnt,)), "depth": mk.array("depth", (npnt,)),
               "wind_source_term_function": _Opaque("wind_source_term_function"), "tail_stress_parametrization_function": _Opaque("tail"),
               "dissipation_source_term_function": _Opaque("dissipation_source_term_function"), "parameters_generation": _Opaque("parameters_generation"),
               "parameters_dissipation": _Opaque("parameters_dissipation"), "spectral_grid": _grid(mk, nf, nd), "progress_bar": None,
               "time_derivative_spectrum": mk.array("dEdt", (npnt, nf, nd)), "direction_iteration": direction_iteration}
        mk.st.ghost["own"] = own
        return dict(own)
    return p


class _PointCallee(CalleeContract):
    """the point function at the batch's call site: an arbitrary function of (row, own guess, own depth); whether the call hands over row p of the
    spectrum *and* of the rate of change, the member's own guess and depth and the caller's functions/parameters is recorded and is a postcondition"""

    def __init__(self):
        super().__init__(spectra_point.target, lambda mk, a: _point_at_call(mk.st.ghost["own"])(mk, a), assumed=False,
                         note="proved above (_u10_from_spectra_point); here an arbitrary function of the row it is given")


def _batch_rows(a, r):
    npnt = a.variance_density.shape[0]
    g, d = a.guess_u10, a.depth
    return forall(0, npnt, lambda p: And(
        eq(r[0][p], UPT(_T.to_z3(p), _T.to_z3(g[p]), _T.to_z3(d[p]))),
        eq(r[1][p], DPT(_T.to_z3(p), _T.to_z3(g[p]), _T.to_z3(d[p])))), "p")


BATCH_INST = [("no_direction_iteration", _p_batch(False)), ("direction_iteration", _p_batch(True))]
spectra_batch = Contract(
    WI + "_u10_from_spectra", instances=BATCH_INST,
    requires=[("dims", lambda a: And(a.variance_density.shape[0] >= 0, a.variance_density.shape[1] >= 0, a.variance_density.shape[2] >= 0))],
    ensures=[("member_p_is_the_point_result_of_row_p", _batch_rows),
             ],
    callees={spectra_point.target: _PointCallee()},
)


# ------------------------------------------------------------------------------------------------ public wrappers
from pyvc.values import Obj as _Obj, LibFunc as _LibFunc
from pyvc.models import xr as _xr          # registers the xarray library model
from contracts.C08 import NUMBA_PARAMS, record as _record


def _spectrum_stub(mk, name, npnt, nf, nd):
    shape = (npnt, nf, nd)
    f = {"variance_density": mk.array(name + "_E", shape), "depth": mk.array(name + "_depth", (npnt,)),
         "radian_frequency": mk.array(name + "_omega", (nf,)), "radian_direction": mk.array(name + "_theta", (nd,)),
         "frequency_step": mk.array(name + "_df", (nf,)), "direction_step": mk.array(name + "_dtheta", (nd,)),
         "number_of_spectra": npnt, "shape": _LibFunc("spectrum.shape", lambda i, s, a, k, shape=shape: shape),
         "dims_space_time": ("time",), "coords_space_time": mk.st.alloc({"time": mk.array(name + "_time", (npnt,))}, "coords")}
    return mk.st.alloc(_Obj("SpectrumStub", f), name)


def _batch_result(mk, a):
    npnt = mk.st.deref(a.variance_density).shape[0]
    r = (mk.array("speed", (npnt,)), mk.array("direction", (npnt,)))
    mk.st.ghost["batch_call"] = (a, r)
    return r


BATCH_AT_CALL = CalleeContract(spectra_batch.target, _batch_result, note="proved above (_u10_from_spectra): one (speed, direction) per member")


def _p_wrapper(with_rate, direction_iteration):
    def p(mk):
        npnt, nf, nd = mk.size("np"), mk.size("nf"), mk.size("nd")
        spec = _spectrum_stub(mk, "spectrum", npnt, nf, nd)
        pg, pd = _record(mk, "generation_parameters", ["g_a", "g_b"]), _record(mk, "dissipation_parameters", ["d_a"])
        gen = mk.instance(B + "generation.py::WindGeneration", {"_parameters": pg, "_wind_source_term_function": _Opaque("wind_source_term_function"),
                                                                  "_tail_stress_parametrization_function": _Opaque("tail"), "name": "generation"})
        dis = mk.instance(B + "dissipation.py::Dissipation", {"_parameters": pd, "_dissipation_function": _Opaque("dissipation_function"), "name": "dissipation"})
        bal = mk.instance(B + "balance.py::SourceTermBalance", {"generation": gen, "dissipation": dis})
        rate = _spectrum_stub(mk, "rate_of_change", npnt, nf, nd) if with_rate else None
        return {"balance": bal, "guess_u10": mk.array("guess", (npnt,)), "spectrum": spec, "jacobian": False, "jacobian_parameters": None,
                "time_derivative_spectrum": rate, "direction_iteration": direction_iteration}
    return p


def _fields(a, v):
    return a._snap.deref(v).fields


def _wrapper_post(a, r):
    ca, (speed, direction) = a._ghost["batch_call"]
    st = a._snap
    sp = _fields(a, a._raw["spectrum"])
    bal = _fields(a, a._raw["balance"])
    gen, dis = _fields(a, bal["generation"]), _fields(a, bal["dissipation"])
    grid = st.deref(ca.spectral_grid)
    pgen, pdis = st.deref(ca.parameters_generation), st.deref(ca.parameters_dissipation)
    E = st.deref(ca.variance_density)
    cl = [_same(ca.variance_density, sp["variance_density"]), _same(ca.guess_u10, a._raw["guess_u10"]), _same(ca.depth, sp["depth"]),
          _same(ca.wind_source_term_function, gen["_wind_source_term_function"]),
          _same(ca.tail_stress_parametrization_function, gen["_tail_stress_parametrization_function"]),
          _same(ca.dissipation_source_term_function, dis["_dissipation_function"]),
          isinstance(grid, dict) and all(_same(grid[k], sp[k]) for k in ("radian_frequency", "radian_direction", "frequency_step", "direction_step")),
          isinstance(pgen, dict) and set(pgen) == set(st.deref(gen["_parameters"])) and And(*[eq(pgen[k], st.deref(gen["_parameters"])[k]) for k in pgen]),
          isinstance(pdis, dict) and set(pdis) == set(st.deref(dis["_parameters"])) and And(*[eq(pdis[k], st.deref(dis["_parameters"])[k]) for k in pdis]),
          ca.direction_iteration is a.direction_iteration]
    dE = st.deref(ca.time_derivative_spectrum)
    npnt, nf, nd = E.shape
    if a._raw["time_derivative_spectrum"] is None:
        cl.append(forall(0, npnt, lambda p: forall2((0, nf), (0, nd), lambda i, j: eq(dE.get((_T.to_z3(p), _T.to_z3(i), _T.to_z3(j))), 0)), "p"))
    else:
        cl.append(_same(ca.time_derivative_spectrum, _fields(a, a._raw["time_derivative_spectrum"])["variance_density"]))
    u, d = r.vars["u10"].arr, r.vars["direction"].arr
    cl.append(forall(0, npnt, lambda p: And(eq(u[p], st.deref(speed).get((_T.to_z3(p),))), eq(d[p], st.deref(direction).get((_T.to_z3(p),)))), "p"))
    return And(*cl)


WRAP_INST = [("no_rate_of_change", _p_wrapper(False, False)), ("rate_of_change,direction_iteration", _p_wrapper(True, True))]
wrapper = Contract(
    WI + "windspeed_and_direction_from_spectra", instances=WRAP_INST,
    requires=[("dims", lambda a: And(*[n >= 0 for n in a.spectrum.variance_density.shape]))],
    ensures=[("batch_solver_gets_this_spectrum_guess_depth_balance_functions_parameters_grid_and_rate_of_change_and_its_result_is_returned", _wrapper_post)],
    callees={spectra_batch.target: BATCH_AT_CALL, NUMBA_PARAMS.target: NUMBA_PARAMS},
)



def _guess_result(mk, a):
    g = _Opaque("peak_equilibrium_u10")
    mk.st.ghost["guess_call"] = (a, g)
    return mk.st.alloc({"u10": g, "direction": _Opaque("peak_equilibrium_direction")}, "dataset")


def _wrapper_result(mk, a):
    out = _Opaque("inversion_result")
    mk.st.ghost["wrapper_call"] = (a, out)
    return out


GUESS_AT_CALL = CalleeContract("wavephysics/windestimate.py::estimate_u10_from_spectrum", _guess_result,
                               note="C12 (equilibrium-range estimate); here only which call produces the first guess")
WRAPPER_AT_CALL = CalleeContract(wrapper.target, _wrapper_result, note="proved above (windspeed_and_direction_from_spectra)")


def _entry_post(a, r):
    ga, g = a._ghost["guess_call"]
    wa, out = a._ghost["wrapper_call"]
    return And(r is out, _same(ga.spectrum, a._raw["spectrum"]), ga.method == "peak", ga.direction_convention == "going_to_counter_clockwise_east",
               wa.guess_u10 is g, _same(wa.balance, a._raw["balance"]), _same(wa.spectrum, a._raw["spectrum"]),
               wa.time_derivative_spectrum is a._raw["time_derivative_spectrum"] or _same(wa.time_derivative_spectrum, a._raw["time_derivative_spectrum"]),
               wa.direction_iteration is a._raw["direction_iteration"], wa.jacobian is False)


entry = Contract(
    "wavephysics/windestimate.py::estimate_u10_from_source_terms",
    params=lambda mk: {"spectrum": _Opaque("spectrum"), "balance": _Opaque("balance"), "time_derivative_spectrum": _Opaque("rate_of_change"),
                       "direction_iteration": mk.bool("direction_iteration"), "kwargs": {}},
    ensures=[("first_guess_is_the_peak_equilibrium_estimate_and_everything_else_is_forwarded", _entry_post)],
    callees={GUESS_AT_CALL.target: GUESS_AT_CALL, wrapper.target: WRAPPER_AT_CALL},
)

CONTRACTS = [newton, iteration_function, active_region, bulk_rate_point, bulk_dissipation_direction, spectra_point, spectra_batch, wrapper, entry]
BOUNDED = [Bounded("inversion_closes_balance.compiled", bounded_inversion)]
TRUSTED = ["floats as reals: a division by zero yields an unspecified real (numba raises ZeroDivisionError, which the caller's bare except also turns into NaN)",
           "the function handed to numba_newton_raphson is a (deterministic, total, real-valued) function of its first argument: NaN function values are outside the model, and the "
           "balance of C11 carries a roughness memory between evaluations (its value depends on the evaluation history through the first guess of the roughness solver)",
           "numba compiles the functions faithfully (the bounded stand-in runs the compiled code; it is what exposed the keyword-argument defect fixed in /repo)"]
EXPLANATION = ("wiring of the wind inversion proved around an uninterpreted balance function, incl. the exit contract of the root finder (a returned speed left the solver through "
               "its 0.01 m/s step test, is >= 0, and lies in any sign-change bracket the solver holds); convergence / closure / non-degeneracy are a bounded check "
               "of the compiled estimate_u10_from_source_terms on JONSWAP wind seas")
