"""Model of the `logging` calls used by the repository: loggers are objects whose methods have no modelled effect
(messages are not part of any property).  Imported by contracts whose code logs (the file-system model has the same entries)."""
from .. import lib
from ..lib import reg
from ..values import Obj, LibFunc, Opaque


@reg("logging.getLogger")
def logging_getLogger(interp, st, args, kwargs):
    return Obj("logger", {})


@reg("logging.NullHandler")
def logging_NullHandler(interp, st, args, kwargs):
    return Opaque("logging.NullHandler")


for _lvl, _n in (("DEBUG", 10), ("INFO", 20), ("WARNING", 30), ("ERROR", 40)):
    lib.REG["logging." + _lvl] = _n

_NOOP = LibFunc("logger.method", lambda i, s, a, k: None)


class Plugin:
    def obj_getattr(self, interp, st, ref, o, name):
        if o.cls == "logger":
            lib.USED.add("logging.Logger methods (no modelled effect)")
            return _NOOP
        return NotImplemented


lib.PLUGINS.append(Plugin())
