"""Library contracts: builtins and numpy primitives as used by the repository (DESIGN §2.6).

Every entry here is an *assumed* contract about code outside /repo; the names used in a run
are collected in ctx.lib_used and end up in the evidence's trusted base."""
from fractions import Fraction
import itertools
import z3
from . import terms as T
from .terms import Unsupported, is_sym
from .values import (Ref, Arr, CArr, Obj, FuncVal, ClassVal, BoundMethod, LibFunc, ModVal,
                     ExcVal, ExcType, Poison, Opaque, materialise, carr_from_list, sym_array)

REG = {}
BUILTINS = {}
USED = set()
PLUGINS = []   # objects with optional hook methods (xarray / datetime / filesystem models)
OPTIONS = {"finite_reals": False}   # per-contract switches (set by verify_contract from contract.options)


class TypeTag:
    """A library type: usable in isinstance, optionally callable (ctor) and with attributes."""

    def __init__(self, name, ctor=None, attrs=None):
        self.name = name
        self.ctor = ctor
        self.attrs = dict(attrs or {})

    def __repr__(self):
        return f"<type {self.name}>"


class RangeVal:
    def __init__(self, lo, hi, step=1):
        self.lo, self.hi, self.step = lo, hi, step


def reg(name, builtin=False):
    def deco(fn):
        lf = LibFunc(name, _wrap(name, fn))
        REG[name] = lf
        if builtin:
            BUILTINS[name.split(".")[-1]] = lf
        return fn
    return deco


def _wrap(name, fn):
    def impl(interp, st, args, kwargs):
        USED.add(name)
        return fn(interp, st, args, kwargs)
    return impl


def lookup(name):
    if name in REG:
        return REG[name]
    for p in PLUGINS:
        h = getattr(p, "lookup", None)
        if h:
            r = h(name)
            if r is not NotImplemented:
                return r
    head = name.split(".")[0]
    if head in ("numpy", "numba", "typing", "scipy", "xarray", "pandas", "datetime", "numbers", "os",
                "logging", "hashlib", "shutil", "multiprocessing", "warnings", "math", "abc",
                "dataclasses", "copy", "json", "pathlib", "glob", "time", "re", "functools",
                "numba_progress", "collections", "boto3", "botocore", "requests", "urllib"):
        # unknown member of a known library: resolved lazily, unsupported only if *used*
        return ModVal(name)
    raise Unsupported(f"no library contract for {name}")


# --------------------------------------------------------------------------- hooks
def _hook(name, default=NotImplemented):
    def h(*a, **k):
        for p in PLUGINS:
            f = getattr(p, name, None)
            if f is not None:
                r = f(*a, **k)
                if r is not NotImplemented:
                    return r
        return default
    return h


obj_binop = _hook("obj_binop")
obj_compare = _hook("obj_compare")
obj_getattr = _hook("obj_getattr")
obj_setattr = _hook("obj_setattr")
special_binop = _hook("special_binop")
special_compare = _hook("special_compare")
special_contains = _hook("special_contains")
special_getitem = _hook("special_getitem")
special_setitem = _hook("special_setitem")
special_delitem = _hook("special_delitem")
special_iterate = _hook("special_iterate")
special_instantiate = _hook("special_instantiate")
obj_as_array = _hook("obj_as_array")      # array-like library objects stored into / combined with numpy arrays (__array__)


def obj_isinstance(interp, st, o, typ):
    for p in PLUGINS:
        f = getattr(p, "obj_isinstance", None)
        if f is not None:
            r = f(interp, st, o, typ)
            if r is not NotImplemented:
                return r
    if isinstance(o, Obj) and isinstance(typ, ClassVal):
        work = [o.cls]
        while work:
            c = work.pop()
            if c is typ or (isinstance(c, ClassVal) and c.qualname == typ.qualname and c.module is typ.module):
                return True
            if isinstance(c, ClassVal):
                work.extend(c.bases)
    return False


def enter_context(interp, st, v):
    return v


# --------------------------------------------------------------------------- arrays
def _norm_index(arr, idx):
    """-> list of ('i', term) | ('s', lo, hi, rev) | ('n',) covering all dims of arr."""
    items = list(idx) if isinstance(idx, tuple) else [idx]
    from .interp import Slice
    n_real = sum(1 for it in items if it is not None and it is not Ellipsis)
    out = []
    if any(it is Ellipsis for it in items):
        k = items.index(Ellipsis)
        items = items[:k] + [Slice(None, None, None)] * (arr.ndim - n_real) + items[k + 1:]
    else:
        items = items + [Slice(None, None, None)] * (arr.ndim - n_real)
    if sum(1 for it in items if isinstance(it, Arr)) > 1:
        raise Unsupported("more than one index array (broadcast fancy indexing is not modelled)")
    d = 0
    for it in items:
        if it is None:
            out.append(("n",))
            continue
        if d >= arr.ndim:
            raise Unsupported("too many indices")
        n = arr.shape[d]
        if isinstance(it, Slice):
            step = it.step
            if step is not None and step != 1:
                if step == -1 and it.lo is None and it.hi is None:
                    out.append(("s", 0, n, True))
                    d += 1
                    continue
                raise Unsupported("slice step")
            lo = 0 if it.lo is None else it.lo
            hi = n if it.hi is None else it.hi
            if isinstance(lo, int) and lo < 0:
                lo = T.add(n, lo)
            if isinstance(hi, int) and hi < 0:
                hi = T.add(n, hi)
            if isinstance(hi, int) and isinstance(n, int):
                hi = min(hi, n)
            if isinstance(lo, int) and isinstance(hi, int) and hi < lo:
                hi = lo
            out.append(("s", lo, hi, False))
        elif isinstance(it, Arr):
            out.append(("a", it))
        else:
            it = T._b2n(it)
            if not T.is_num(it):
                raise Unsupported(f"array index of type {type(it).__name__}")
            if isinstance(it, Fraction):
                raise Unsupported("non-integer index")
            if isinstance(it, int) and it < 0:
                it = T.add(n, it)
            if is_sym(it) and z3.is_real(it):
                raise Unsupported("real-valued index")
            out.append(("i", it))
        d += 1
    return out


def _int_cells(a):
    """is `a` an array of integers? (declared so, or a generic cell is an integer term: elementwise arithmetic on integer
    arrays keeps integer cells but does not record the sort)"""
    if not isinstance(a, Arr) or a.sort in ("bool", "xreal"):
        return False
    if a.sort == "int":
        return True
    try:
        v = a.get(tuple(T.Fresh.int("ic") for _ in a.shape))
    except Unsupported:
        return False
    return isinstance(v, int) and not isinstance(v, bool) or (is_sym(v) and z3.is_int(v))


def arr_getitem(interp, st, arr, idx):
    idx = st.deref(idx) if isinstance(idx, Ref) else idx
    if isinstance(idx, tuple):
        idx = tuple(st.deref(i) if isinstance(i, Ref) else i for i in idx)
    sel = _mask_select(interp, st, arr, idx)
    if sel is not None:
        return sel
    if isinstance(idx, tuple) and len(idx) == arr.ndim >= 2 and all(isinstance(it, Arr) and it.ndim == 1 and _int_cells(it) for it in idx):
        # one integer index array per axis, all of one length: out[q] = arr[i0[q], i1[q], ...]  (numpy advanced indexing
        # with index arrays of equal shape)
        n = _bshape(st, interp, [it.shape for it in idx])[0]
        if interp.ctx is not None and interp.ctx.check_bounds:
            q = T.Fresh.int("q")
            for k, it in enumerate(idx):
                v = T.to_z3(it.get((q,)))
                interp.ctx.oblige(st, f"index.gather.dim{k}", z3.ForAll([q], z3.Implies(z3.And(q >= 0, q < T.to_z3(n)),
                                                                                          z3.And(v >= 0, v < T.to_z3(arr.shape[k])))))
        r = Arr((n,), lambda ix, idx=idx, arr=arr: arr.get(tuple(it.get((ix[0],)) for it in idx)), (), arr.sort)
        nm = getattr(arr, "nanmask", None)
        if nm is not None:
            r.nanmask = Arr((n,), lambda ix, idx=idx, nm=nm: nm.get(tuple(it.get((ix[0],)) for it in idx)), (), "bool")
        return r
    spec = _norm_index(arr, idx)
    if all(s[0] == "i" for s in spec):
        ix = tuple(s[1] for s in spec)
        if interp.ctx is not None and interp.ctx.check_bounds:
            for k, (i, n) in enumerate(zip(ix, arr.shape)):
                interp.ctx.oblige(st, f"index.dim{k}", T.land(T.cmp(">=", i, 0), T.cmp("<", i, n)))
        return arr.get(ix)
    oshape = []
    for s in spec:
        if s[0] == "s":
            oshape.append(T.sub(s[2], s[1]))
        elif s[0] == "n":
            oshape.append(1)
        elif s[0] == "a":
            oshape.extend(s[1].shape)

    def base(oidx, spec=spec, arr=arr):
        src = []
        k = 0
        for s in spec:
            if s[0] == "i":
                src.append(s[1])
            elif s[0] == "s":
                src.append(T.sub(T.sub(s[2], 1), oidx[k]) if s[3] else T.add(s[1], oidx[k]))
                k += 1
            elif s[0] == "n":
                k += 1
            else:
                nd = s[1].ndim
                src.append(s[1].get(tuple(oidx[k:k + nd])))
                k += nd
        return arr.get(tuple(src))
    r = Arr(oshape, base, (), arr.sort)
    r.is_view = True
    return materialise(r) if isinstance(arr, CArr) else r


class MaskedSel:
    """x[mask] for a boolean mask, kept in the index space of x instead of being compressed:
    `arr` is the (view of the) array selected from, `dom` a boolean Arr of arr's shape marking the
    selected cells, `kind` says how the mask was applied: 'whole' (mask of the array's own shape)
    or ('axis', k) (1-D mask on the k-th axis counted from the end, other axes complete).
    Elementwise operations between selections with the same kind and (provably) the same domain
    act cell by cell in the index space; a store `y[mask] = sel` scatters back.  That is numpy's
    compress / scatter semantics as long as the domains agree, which is checked, never assumed."""

    def __init__(self, arr, dom, kind):
        self.arr, self.dom, self.kind = arr, dom, kind

    @property
    def mask(self):
        return self.dom


def _is_full_slice(it):
    from .interp import Slice
    return isinstance(it, Slice) and it.lo is None and it.hi is None and it.step is None


def _bget(a, ix):
    """cell of `a` at index ix of a broadcast shape"""
    j = len(ix) - a.ndim
    return a.get(tuple(0 if (isinstance(s_, int) and s_ == 1) else i for i, s_ in zip(ix[j:], a.shape)))


def _same_bool(interp, st, a, b):
    if isinstance(a, bool) or isinstance(b, bool):
        if isinstance(a, bool) and isinstance(b, bool):
            return a == b
    else:
        if a.eq(b) or z3.simplify(a).eq(z3.simplify(b)):
            return True
    return interp is not None and interp.valid(st, T.cmp("==", T.to_z3(a), T.to_z3(b)), timeout=3000)


def _same_domain(interp, st, d1, d2, shape):
    ix = tuple(T.Fresh.int("dx") for _ in shape)
    return _same_bool(interp, st, _bget(d1, ix), _bget(d2, ix))


def _mask_select(interp, st, arr, idx):
    """x[mask], x[:, mask], x[None, mask] ... -> MaskedSel, or None when idx has no boolean mask"""
    if isinstance(idx, MaskedSel):
        raise Unsupported("selection by a compressed mask from a full array")
    if isinstance(idx, Arr) and idx.sort == "bool":
        if idx.ndim == arr.ndim == 1:
            return MaskedSel(arr, idx, ("axis", 1))
        if idx.ndim == arr.ndim:
            return MaskedSel(arr, idx, "whole")
        raise Unsupported("boolean mask of lower rank than the array")
    if not isinstance(idx, tuple):
        return None
    masks = [k for k, it in enumerate(idx) if isinstance(it, Arr) and it.sort == "bool"]
    if not masks:
        return None
    if len(masks) > 1 or idx[masks[0]].ndim != 1:
        raise Unsupported("more than one boolean mask in an index")
    from .interp import Slice
    k = masks[0]
    if not all(it is None or _is_full_slice(it) for j, it in enumerate(idx) if j != k):
        raise Unsupported("boolean mask combined with partial slices / integers")
    mask = idx[k]
    plain = tuple(Slice(None, None, None) if j == k else it for j, it in enumerate(idx))
    view = arr_getitem(interp, st, arr, plain)
    pos = k          # every item before the mask (full slice or newaxis) yields one output axis
    dom = Arr(view.shape, lambda ix, mask=mask, pos=pos: mask.get((ix[pos],)), (), "bool")
    return MaskedSel(view, dom, ("axis", view.ndim - pos))


def sel_getitem(interp, st, sel, idx):
    """sel[m] where m is itself a selection of booleans with sel's domain: narrows the domain"""
    idx = st.deref(idx)
    if not (isinstance(idx, MaskedSel) and idx.arr.sort == "bool" and idx.kind == sel.kind):
        raise Unsupported("index of a masked selection")
    if not _same_domain(interp, st, sel.dom, idx.dom, sel.arr.shape):
        raise Unsupported("masked selections with different domains")
    dom = st.deref(ew(st, T.land, sel.dom, idx.arr, sort="bool"))
    return MaskedSel(sel.arr, dom, sel.kind)


def sel_setitem(interp, st, sel, idx, v):
    target = sel_getitem(interp, st, sel, idx)
    v = st.deref(v)
    dom = target.dom
    if isinstance(v, MaskedSel):
        if v.kind != sel.kind or not _same_domain(interp, st, dom, v.dom, sel.arr.shape):
            raise Unsupported("masked store: value selected with a different mask")
        va = v.arr
        new = sel.arr.updated(lambda ix: dom.get(ix), lambda ix: _bget(va, ix))
    elif T.is_val(v):
        new = sel.arr.updated(lambda ix: dom.get(ix), lambda ix: v)
    else:
        raise Unsupported("masked store of this value")
    return MaskedSel(new, sel.dom, sel.kind)


def arr_setitem(interp, st, arr, idx, v):
    idx = st.deref(idx) if isinstance(idx, Ref) else idx
    v = st.deref(v)
    if isinstance(v, Obj):
        conv = obj_as_array(interp, st, v)
        if conv is not NotImplemented:
            v = conv
    if isinstance(idx, tuple):
        idx = tuple(st.deref(i) if isinstance(i, Ref) else i for i in idx)
    if isinstance(idx, Arr) and idx.sort == "bool" and not isinstance(v, MaskedSel):
        mask = idx
        if isinstance(v, MaskedSel):
            if v.mask is not mask:
                raise Unsupported("masked store of a selection made with a different mask")
            src = v.arr
            return arr.updated(lambda ix: mask.get(ix[:mask.ndim]), lambda ix: src.get(ix))
        if isinstance(v, Arr):
            raise Unsupported("masked store of an array")
        if not T.is_val(v):
            raise Unsupported(f"masked store of {type(v).__name__}")
        return arr.updated(lambda ix: mask.get(ix[:mask.ndim]), lambda ix: v)
    if isinstance(idx, tuple) and any(it is None for it in idx):
        raise Unsupported("store with newaxis")
    dest = _mask_select(interp, st, arr, idx)
    if dest is not None:
        dom = dest.dom
        if isinstance(v, MaskedSel):
            if v.kind != dest.kind or not _same_domain(interp, st, dom, v.dom, arr.shape):
                raise Unsupported("masked store: value selected with a different mask")
            if interp is not None and interp.ctx is not None:
                for d1, d2 in zip(arr.shape[::-1], v.arr.shape[::-1]):
                    if not (isinstance(d2, int) and d2 == 1) and d1 is not d2 and not (isinstance(d1, int) and isinstance(d2, int) and d1 == d2) \
                            and not (is_sym(d1) and is_sym(d2) and d1.eq(d2)):
                        interp.ctx.oblige(st, "shape.masked_store", T.cmp("==", d1, d2))
            va = v.arr
            return arr.updated(lambda ix: dom.get(ix), lambda ix: _bget(va, ix))
        if isinstance(v, Arr) or not T.is_val(v):
            raise Unsupported("masked store of an array")
        return arr.updated(lambda ix: dom.get(ix), lambda ix: v)
    if isinstance(v, (list, tuple)):
        v = carr_from_list(_deep_list(st, v))
    if isinstance(idx, tuple) and len(idx) == 1 and isinstance(idx[0], Arr) and idx[0].sort != "bool":
        idx = idx[0]
    if isinstance(idx, Arr) and idx.ndim == 1 and arr.ndim >= 1 and _int_cells(idx):
        # x[ind] = v with ind provably 0, 1, ..., len(x)-1: the store x[:] = v  (a general scatter is not modelled)
        q = T.Fresh.int("q")
        ident = z3.And(T.to_z3(T.cmp("==", idx.shape[0], arr.shape[0])),
                       z3.ForAll([q], z3.Implies(z3.And(q >= 0, q < T.to_z3(arr.shape[0])), T.to_z3(idx.get((q,))) == q)))
        if interp is None or not interp.valid(st, ident, timeout=3000):
            raise Unsupported("store through an integer index array that is not the identity on the axis")
        from .interp import Slice
        idx = Slice(None, None, None)
    spec = _norm_index(arr, idx)
    if any(s[0] in ("n", "a") for s in spec):
        raise Unsupported("store with newaxis / fancy index")

    def guard(ix, spec=spec):
        cs = []
        for s, i in zip(spec, ix):
            if s[0] == "i":
                cs.append(T.cmp("==", i, s[1]))
            else:
                lo, hi = s[1], s[2]
                full = (isinstance(lo, int) and lo == 0 and (hi is arr.shape[spec.index(s)]))
                if not full:
                    cs.append(T.cmp(">=", i, lo))
                    cs.append(T.cmp("<", i, hi))
        return T.land(*cs)
    guard.spec = spec
    sl = [k for k, s in enumerate(spec) if s[0] == "s"]
    if isinstance(v, Arr):
        off = len(sl) - v.ndim
        if off < 0:
            raise Unsupported("value has more dimensions than the target slice")

        def val(ix, v=v, spec=spec, sl=sl, off=off):
            src = []
            for j, k in enumerate(sl[off:]):
                s = spec[k]
                d = T.sub(T.sub(s[2], 1), ix[k]) if s[3] else T.sub(ix[k], s[1])
                if isinstance(v.shape[j], int) and v.shape[j] == 1:
                    d = 0
                src.append(d)
            return v.get(tuple(src))
    else:
        if not T.is_val(v):
            raise Unsupported(f"array store of {type(v).__name__}")

        def val(ix, v=v):
            return v
    return arr.updated(guard, val)


def _bshape(st, interp, shapes):
    nd = max(len(s) for s in shapes)
    out = []
    for k in range(nd):
        dims = []
        for s in shapes:
            j = k - (nd - len(s))
            if j >= 0:
                dims.append(s[j])
        pick = None
        for d in dims:
            if isinstance(d, int) and d == 1:
                continue
            if pick is None:
                pick = d
            else:
                if isinstance(d, int) and isinstance(pick, int):
                    if d != pick:
                        raise Unsupported(f"shape mismatch {shapes}")
                elif not (is_sym(d) and is_sym(pick) and d.eq(pick)):
                    if interp is not None and interp.ctx is not None:
                        interp.ctx.oblige(st, "shape.broadcast", T.cmp("==", d, pick))
                    if isinstance(d, int):
                        pick = d
        out.append(1 if pick is None else pick)
    return tuple(out)


CUR_INTERP = [None]


def ew(st, fn, *ops, sort=None):
    """Elementwise application with numpy broadcasting."""
    ops = [st.deref(o) for o in ops]
    sels = [o for o in ops if isinstance(o, MaskedSel)]
    if sels:
        if any(isinstance(o, Arr) for o in ops):
            raise Unsupported("arithmetic between a masked selection and a full array")
        if any(o.kind != sels[0].kind for o in sels):
            raise Unsupported("arithmetic between selections made along different axes")
        under = st.deref(ew(st, fn, *[o.arr if isinstance(o, MaskedSel) else o for o in ops], sort=sort))
        for o in sels[1:]:
            if not _same_domain(CUR_INTERP[0], st, sels[0].dom, o.dom, under.shape):
                raise Unsupported("arithmetic between selections with different masks")
        d0 = sels[0].dom
        dom = d0 if tuple(d0.shape) == tuple(under.shape) else Arr(under.shape, lambda ix, d0=d0: _bget(d0, ix), (), "bool")
        return st.alloc(MaskedSel(under, dom, sels[0].kind), "sel")
    arrs = [o for o in ops if isinstance(o, Arr)]
    shape = _bshape(st, CUR_INTERP[0], [a.shape for a in arrs])
    nd = len(shape)
    if sort is None:
        sort = "real"

    memo = {}   # cell terms are pure functions of the index: chains of elementwise ops stay linear in size

    def base(ix, ops=ops, nd=nd):
        key = tuple(("z", i.get_id()) if is_sym(i) else i for i in ix)
        hit = memo.get(key)
        if hit is not None:
            return hit[1]
        vals = []
        for o in ops:
            if isinstance(o, Arr):
                j = nd - o.ndim
                sub = tuple(0 if (isinstance(s, int) and s == 1) else i for i, s in zip(ix[j:], o.shape))
                vals.append(o.get(sub))
            else:
                vals.append(o)
        r = fn(*vals)
        memo[key] = (ix, r)   # ix kept alive: z3 ids are not recycled while the entry exists
        return r
    r = Arr(shape, base, (), sort)
    if all(isinstance(a, CArr) for a in arrs):
        return st.alloc(materialise(r), "arr")
    return st.alloc(r, "arr")


def _val(st, x):
    return st.deref(x)


def _unary(name, fn, sort=None):
    @reg(name)
    def f(interp, st, args, kwargs, fn=fn, sort=sort):
        x = _val(st, args[0])
        if isinstance(x, (Arr, MaskedSel)):
            return ew(st, fn, x, sort=sort)
        if isinstance(x, Obj):
            r = obj_binop(interp, st, "ufunc:" + name.split(".")[-1], x, None)
            if r is not NotImplemented:
                return r
            raise Unsupported(f"{name} of object")
        if isinstance(x, (list, tuple)):
            return ew(st, fn, carr_from_list([st.deref(e) for e in x]), sort=sort)
        return fn(x)
    return f


for _n in ("exp", "log", "sqrt", "sin", "cos", "tan", "tanh", "sinh", "cosh", "arctan", "arcsin", "arccos"):
    _unary("numpy." + _n, (lambda a, _n=_n: T.uf(_n, a)))
    _unary("math." + _n, (lambda a, _n=_n: T.uf(_n, a)))
_unary("numpy.abs", T.absv)
_unary("numpy.absolute", T.absv)
_unary("numpy.fabs", T.absv)
_unary("numpy.negative", T.neg)
_unary("numpy.square", lambda a: T.mul(a, a))
_unary("numpy.logical_not", T.lnot, "bool")
def _floor(a):
    if isinstance(a, T.XR):
        return T.xr(_floor(a.v), a.nan)
    return a if isinstance(a, int) else (Fraction(a.numerator // a.denominator) if isinstance(a, Fraction) else z3.ToReal(z3.ToInt(T.to_real(a))))


_unary("numpy.floor", _floor)
def _finite_plain(a):
    if is_sym(a) and a.eq(T.NINF):
        return False
    if OPTIONS.get("finite_reals") and not (is_sym(a) and a.eq(T.INF)):
        return True       # contract option: every non-NaN value of this contract is finite
    return T.cmp("!=", a, T.INF) if is_sym(a) else True


_unary("numpy.isnan", lambda a: T.xnan(a), "bool")    # plain reals are never NaN; terms.XR values carry a flag
_unary("numpy.isfinite", lambda a: T.land(T.lnot(T.xnan(a)), _finite_plain(T.xval(a))), "bool")
_unary("numpy.isinf", lambda a: T.land(T.lnot(T.xnan(a)), T.lnot(_finite_plain(T.xval(a)))), "bool")


def _rint(a):
    """round half to even (numpy.rint)"""
    if isinstance(a, T.XR):
        return T.xr(_rint(a.v), a.nan)
    if isinstance(a, int):
        return a
    if isinstance(a, Fraction):
        return Fraction(round(a))
    r = T.to_real(a)
    fl = z3.ToInt(r)
    d = r - z3.ToReal(fl)
    up = z3.Or(d > z3.Q(1, 2), z3.And(d == z3.Q(1, 2), fl % 2 != 0))
    return z3.ToReal(z3.If(up, fl + 1, fl))


_unary("numpy.rint", _rint)
_unary("numpy.float64", lambda a: T.to_real(a) if is_sym(a) else Fraction(a))
_unary("numpy.float32", lambda a: T.to_real(a) if is_sym(a) else Fraction(a))
_unary("numpy.int64", lambda a: a)
_unary("numpy.int32", lambda a: a)
_unary("numpy.degrees", lambda a: T.div(T.mul(a, 180), T.PI))
_unary("numpy.radians", lambda a: T.div(T.mul(a, T.PI), 180))
_unary("numpy.sign", lambda a: T.ite(T.cmp(">", a, 0), 1, T.ite(T.cmp("<", a, 0), -1, 0)))

REG["numpy.pi"] = T.PI
REG["math.pi"] = T.PI
REG["numpy.inf"] = T.INF
REG["numpy.nan"] = T.NAN
REG["numpy.NaN"] = T.NAN
REG["math.nan"] = T.NAN
REG["math.inf"] = T.INF
REG["numpy.newaxis"] = None
for _t in ("ndarray", "float64", "int64", "float32", "int32", "bool_", "datetime64", "timedelta64", "complex64", "complex128"):
    if "numpy." + _t not in REG:
        REG["numpy." + _t] = TypeTag("numpy." + _t)
REG["numpy.ndarray"] = TypeTag("numpy.ndarray")


def _binary(name, fn, sort=None):
    @reg(name)
    def f(interp, st, args, kwargs, fn=fn, sort=sort):
        a, b = _val(st, args[0]), _val(st, args[1])
        if isinstance(a, Arr) or isinstance(b, Arr):
            return ew(st, fn, a, b, sort=sort)
        return fn(a, b)


_binary("numpy.arctan2", lambda a, b: T.uf2("arctan2", a, b))
_binary("math.atan2", lambda a, b: T.uf2("arctan2", a, b))
_binary("numpy.minimum", lambda a, b: T.ite(T.cmp("<=", a, b), a, b))
_binary("numpy.maximum", lambda a, b: T.ite(T.cmp(">=", a, b), a, b))
_binary("numpy.logical_and", T.land, "bool")
_binary("numpy.logical_or", T.lor, "bool")
_binary("numpy.power", T.power)
_binary("numpy.mod", T.mod)
_binary("numpy.multiply", T.mul)
_binary("numpy.add", T.add)
_binary("numpy.subtract", T.sub)
_binary("numpy.divide", T.div)


@reg("numpy.where")
def np_where(interp, st, args, kwargs):
    if len(args) != 3:
        raise Unsupported("np.where with one argument")
    c, a, b = (_val(st, x) for x in args)
    if not any(isinstance(x, Arr) for x in (c, a, b)):
        return T.ite(c, a, b)
    return ew(st, lambda cc, aa, bb: T.ite(cc, aa, bb), c, a, b,
              sort=(a.sort if isinstance(a, Arr) else (b.sort if isinstance(b, Arr) else "real")))


@reg("numpy.clip")
def np_clip(interp, st, args, kwargs):
    args = list(args) + [kwargs[k] for k in ("a_min", "a_max")[len(args) - 1:] if k in kwargs] if len(args) < 3 else args
    if len(args) < 3:
        raise Unsupported("np.clip with one bound")
    x, lo, hi = (_val(st, v) for v in args[:3])
    f = lambda v, l, h: T.ite(T.cmp("<", v, l), l, T.ite(T.cmp(">", v, h), h, v))
    if any(isinstance(v, Arr) for v in (x, lo, hi)):
        return ew(st, f, x, lo, hi, sort=x.sort if isinstance(x, Arr) else "real")
    return f(x, lo, hi)


def _shape_arg(st, s):
    s = st.deref(s)
    if isinstance(s, (tuple, list)):
        return tuple(st.deref(x) for x in s)
    if isinstance(s, CArr) and s.ndim == 1:
        return tuple(s.tolist())
    if isinstance(s, Arr):
        raise Unsupported("array of symbolic length as a shape")
    return (s,)


def _dtype_sort(st, kwargs, default="real"):
    d = st.deref(kwargs.get("dtype")) if "dtype" in kwargs else None
    if isinstance(d, TypeTag):
        d = d.name
    if isinstance(d, LibFunc):
        d = d.name
    if isinstance(d, str):
        if "int" in d:
            return "int"
        if "bool" in d:
            return "bool"
        if "float" in d:
            return "real"
        if "complex" in d:
            raise Unsupported("complex arrays")
    return default


def _alloc_uninit(st, shape, name="empty", sort="real"):
    """np.empty: cells hold unspecified values -> a fresh uninterpreted function."""
    a = sym_array(T.Fresh.name(name), shape, sort)
    if all(isinstance(s, int) for s in shape) and _size(shape) <= 256:
        a = materialise(a)
    return st.alloc(a, name)


def _size(shape):
    n = 1
    for s in shape:
        n *= s
    return n


def _const_arr(st, shape, v, sort="real"):
    if all(isinstance(s, int) for s in shape) and _size(shape) <= 4096:
        return st.alloc(CArr(shape, {k: v for k in itertools.product(*[range(s) for s in shape])}, sort), "arr")
    return st.alloc(Arr(shape, lambda ix, v=v: v, (), sort), "arr")


@reg("numpy.empty")
def np_empty(interp, st, args, kwargs):
    return _alloc_uninit(st, _shape_arg(st, args[0] if args else kwargs["shape"]), sort=_dtype_sort(st, kwargs))


@reg("numpy.zeros")
def np_zeros(interp, st, args, kwargs):
    srt = _dtype_sort(st, kwargs)
    return _const_arr(st, _shape_arg(st, args[0] if args else kwargs["shape"]), 0 if srt == "int" else (False if srt == "bool" else Fraction(0)), srt)


@reg("numpy.ones")
def np_ones(interp, st, args, kwargs):
    srt = _dtype_sort(st, kwargs)
    return _const_arr(st, _shape_arg(st, args[0] if args else kwargs["shape"]), 1 if srt == "int" else (True if srt == "bool" else Fraction(1)), srt)


@reg("numpy.full")
def np_full(interp, st, args, kwargs):
    return _const_arr(st, _shape_arg(st, args[0]), st.deref(args[1]))


@reg("numpy.empty_like")
def np_empty_like(interp, st, args, kwargs):
    a = _val(st, args[0])
    return _alloc_uninit(st, a.shape, sort=_dtype_sort(st, kwargs, a.sort if a.sort in ("int", "bool") else "real"))


@reg("numpy.full_like")
def np_full_like(interp, st, args, kwargs):
    a = _val(st, args[0])
    v = st.deref(args[1] if len(args) > 1 else kwargs["fill_value"])
    if not T.is_val(v):
        raise Unsupported("np.full_like fill value")
    if isinstance(a, MaskedSel):
        return st.alloc(MaskedSel(Arr(a.arr.shape, lambda ix, v=v: v, (), "real"), a.dom, a.kind), "sel")
    if not isinstance(a, Arr):
        raise Unsupported("np.full_like of a non-array")
    return _const_arr(st, a.shape, v)


@reg("numpy.searchsorted")
def np_searchsorted(interp, st, args, kwargs):
    """np.searchsorted(a, v, side): for `a` sorted in non-decreasing order (numpy's documented
    requirement, emitted as an obligation) the insertion point is the number of cells < v (left)
    or <= v (right), i.e. the first index whose cell is >= v (left) / > v (right), len(a) if none."""
    a = _val(st, args[0])
    v = _val(st, args[1] if len(args) > 1 else kwargs["v"])
    side = st.deref(kwargs.get("side", args[2] if len(args) > 2 else "left"))
    if side not in ("left", "right"):
        raise Unsupported("np.searchsorted side")
    if "sorter" in kwargs:
        raise Unsupported("np.searchsorted sorter")
    op = ">" if side == "right" else ">="
    if isinstance(a, (list, tuple)):
        a = [st.deref(e) for e in a]
        if all(isinstance(e, (int, Fraction)) for e in a) and isinstance(v, (int, Fraction)):
            if any(a[k] > a[k + 1] for k in range(len(a) - 1)):
                raise Unsupported("np.searchsorted on an unsorted sequence")
            return sum(1 for e in a if not T.cmp(op, e, v))
        a = carr_from_list(a)
    if not isinstance(a, Arr) or a.ndim != 1:
        raise Unsupported("np.searchsorted: first argument must be 1-d")
    n = a.shape[0]
    if interp.ctx is not None:
        q = T.Fresh.int("q")
        nxt = a.get((q + 1,))
        cur = a.get((q,))
        if isinstance(n, int):
            srt = T.land(*[T.cmp("<=", a.get((k,)), a.get((k + 1,))) for k in range(n - 1)])
        else:
            srt = z3.ForAll([q], z3.Implies(z3.And(q >= 0, q + 1 < T.to_z3(n)), T.to_z3(T.cmp("<=", cur, nxt))))
        interp.ctx.oblige(st, "pre.searchsorted.sorted", srt)

    def one(val):
        if isinstance(val, T.XR):
            raise Unsupported("np.searchsorted of a possibly-NaN value")
        bv = T.Fresh.int("k")
        body = T.cmp(op, a.get((bv,)), val)
        if isinstance(body, bool):
            return 0 if body else n
        return T.make_first(0, n, bv, T.to_z3(body))
    if isinstance(v, Arr):
        r = Arr(v.shape, lambda ix: one(v.get(ix)), (), "int")
        return st.alloc(materialise(r) if isinstance(v, CArr) else r, "arr")
    if not T.is_num(v):
        raise Unsupported("np.searchsorted value")
    return one(v)


@reg("numpy.flip")
def np_flip(interp, st, args, kwargs):
    a = _val(st, args[0])
    if not isinstance(a, Arr) or a.ndim != 1:
        raise Unsupported("np.flip of non-1d")
    n = a.shape[0]
    r = Arr(a.shape, lambda ix: a.get((T.sub(T.sub(n, 1), ix[0]),)), (), a.sort)
    return st.alloc(materialise(r) if isinstance(a, CArr) else r, "arr")


@reg("builtins.slice", True)
def b_slice(interp, st, args, kwargs):
    from .interp import Slice
    a = [st.deref(x) for x in args]
    if len(a) == 1:
        return Slice(None, a[0], None)
    if len(a) == 2:
        return Slice(a[0], a[1], None)
    return Slice(a[0], a[1], a[2])


@reg("numpy.zeros_like")
def np_zeros_like(interp, st, args, kwargs):
    return _const_arr(st, _val(st, args[0]).shape, Fraction(0))


@reg("numpy.ones_like")
def np_ones_like(interp, st, args, kwargs):
    return _const_arr(st, _val(st, args[0]).shape, Fraction(1))


def _deep_list(st, x):
    x = st.deref(x)
    if isinstance(x, (list, tuple)):
        return [_deep_list(st, e) for e in x]
    if isinstance(x, CArr):
        if x.ndim == 1:
            return x.tolist()
        raise Unsupported("nested array literal")
    return x


@reg("numpy.array")
def np_array(interp, st, args, kwargs):
    x = _val(st, args[0])
    if isinstance(x, Arr):
        return st.alloc(Arr(x.shape, x.base, x.ups, x.sort) if not isinstance(x, CArr) else CArr(x.shape, x.data, x.sort), "arr")
    if isinstance(x, (list, tuple)):
        return st.alloc(carr_from_list(_deep_list(st, x)), "arr")
    if T.is_num(x):
        return st.alloc(CArr((), {(): x}), "arr0")
    if isinstance(x, RangeList):
        n = T.sub(x.hi, x.lo)
        n = T.ite(T.cmp(">", n, 0), n, 0)
        lo = x.lo
        return st.alloc(Arr((n,), lambda ix, lo=lo: T.add(lo, ix[0]), (), "int"), "arr")
    raise Unsupported("np.array of this value")


REG["numpy.asarray"] = REG["numpy.array"]


@reg("numpy.unravel_index")
def np_unravel_index(interp, st, args, kwargs):
    """np.unravel_index(indices, shape) for a one-dimensional shape (n,): the tuple (indices,); every index must lie in
    [0, n) (numpy raises ValueError otherwise: call-site obligation)"""
    ind = _val(st, args[0])
    shape = _shape_arg(st, args[1] if len(args) > 1 else kwargs["shape"])
    if len(shape) != 1:
        raise Unsupported("unravel_index for a shape of rank != 1")
    if not (isinstance(ind, Arr) and ind.ndim == 1 and ind.sort == "int"):
        raise Unsupported("unravel_index of something that is not a 1-d integer array")
    if interp.ctx is not None:
        q = T.Fresh.int("q")
        v = T.to_z3(ind.get((q,)))
        interp.ctx.oblige(st, "pre.unravel_index.in_range",
                          z3.ForAll([q], z3.Implies(z3.And(q >= 0, q < T.to_z3(ind.shape[0])), z3.And(v >= 0, v < T.to_z3(shape[0])))))
    return (st.alloc(Arr(ind.shape, ind.get, (), "int"), "arr"),)


@reg("numpy.atleast_1d")
def np_atleast_1d(interp, st, args, kwargs):
    x = _val(st, args[0])
    if isinstance(x, Arr):
        if x.ndim == 0:
            return st.alloc(CArr((1,), {(0,): x.get(())}), "arr")
        return args[0]
    return st.alloc(CArr((1,), {(0,): x}), "arr")


@reg("numpy.copy")
def np_copy(interp, st, args, kwargs):
    return np_array(interp, st, args, kwargs)


def reduce_sum(st, a, axis=None, where=None):
    """Sum of array cells (optionally along one axis) as Sum terms."""
    if isinstance(a, CArr) and axis is None:
        acc = Fraction(0)
        for k in a.indices():
            acc = T.add(acc, a.data[k])
        return acc
    if axis is None:
        def rec(prefix, d):
            if d == a.ndim:
                return a.get(tuple(prefix))
            bv = T.Fresh.int("s")
            return T.make_sum(0, a.shape[d], bv, T.to_real(T.to_z3(rec(prefix + [bv], d + 1))))
        return rec([], 0)
    if axis < 0:
        axis += a.ndim
    oshape = a.shape[:axis] + a.shape[axis + 1:]

    def base(ix, a=a, axis=axis):
        bv = T.Fresh.int("s")
        full = tuple(ix[:axis]) + (bv,) + tuple(ix[axis:])
        return T.make_sum(0, a.shape[axis], bv, T.to_real(T.to_z3(a.get(full))))
    r = Arr(oshape, base, (), "real")
    if not oshape:
        return r.get(())
    return st.alloc(materialise(r) if isinstance(a, CArr) else r, "arr")


@reg("numpy.sum")
def np_sum(interp, st, args, kwargs):
    a = _val(st, args[0])
    axis = kwargs.get("axis", args[1] if len(args) > 1 else None)
    if isinstance(a, (list, tuple)):
        a = carr_from_list(_deep_list(st, a))
    if not isinstance(a, Arr):
        return a
    return reduce_sum(st, a, axis)


def reduce_extreme(interp, st, a, is_max):
    if isinstance(a, CArr):
        vals = [a.data[k] for k in a.indices()]
        if not vals:
            raise Unsupported("max of empty")
        m = vals[0]
        for v in vals[1:]:
            m = T.ite(T.cmp(">=" if is_max else "<=", v, m), v, m)
        return m
    if a.ndim != 1:
        raise Unsupported("max/min of n-d symbolic array")
    n = a.shape[0]
    bv = T.Fresh.int("j")
    return T.make_extreme(0, n, bv, T.to_real(T.to_z3(a.get((bv,)))), is_max)


@reg("numpy.max")
def np_max(interp, st, args, kwargs):
    a = _val(st, args[0])
    if isinstance(a, (list, tuple)):
        a = carr_from_list(_deep_list(st, a))
    if not isinstance(a, Arr):
        return a
    return reduce_extreme(interp, st, a, True)


@reg("numpy.min")
def np_min(interp, st, args, kwargs):
    a = _val(st, args[0])
    if isinstance(a, (list, tuple)):
        a = carr_from_list(_deep_list(st, a))
    if not isinstance(a, Arr):
        return a
    return reduce_extreme(interp, st, a, False)


def _arg_extreme(interp, st, args, kwargs, is_max):
    """np.argmax / np.argmin along the last axis (or of a 1-D array): the first index at which the extreme is attained.
    Cells that may be NaN: numpy takes NaN as the extreme, the first NaN wins (same rule as DataArray.argmax(skipna=False))."""
    a = _val(st, args[0])
    if not isinstance(a, Arr):
        raise Unsupported("argmin/argmax of a non-array")
    axis = st.deref(kwargs.get("axis", args[1] if len(args) > 1 else None))
    if axis is None and a.ndim != 1:
        raise Unsupported("argmin/argmax of the flattened n-d array")
    if axis is not None and not (isinstance(axis, int) and axis in (-1, a.ndim - 1)):
        raise Unsupported("argmin/argmax along an axis other than the last")
    n = a.shape[-1]
    oshape = tuple(a.shape[:-1])

    # one search definition for the whole result: the leading indices are parameters of the definition (placeholders
    # substituted per cell), so that every cell of the result is an application of the same function symbol
    ph = [T.Fresh.int("ax") for _ in oshape]
    bv = T.Fresh.int("m")
    cell = a.get(tuple(ph) + (bv,))
    v = T.to_real(T.to_z3(T.xval(cell)))
    generic = T.make_argmax(0, n, bv, v if is_max else -v, z3.BoolVal(True))
    if T.xnan(cell) is not False:
        bq = T.Fresh.int("n")
        first_nan = T.make_first(0, n, bq, T.to_z3(T.xnan(a.get(tuple(ph) + (bq,)))))
        generic = T.ite(T.cmp("<", first_nan, n), first_nan, generic)

    def val(idx):
        return z3.substitute(generic, *[(h, T.to_z3(i)) for h, i in zip(ph, idx)]) if ph else generic
    if interp.ctx is not None:
        # an empty sequence raises ValueError
        if not interp.truth(st, T.cmp(">", n, 0)):
            from .interp import PyRaise
            raise PyRaise(ExcVal("ValueError", ("attempt to get argmin of an empty sequence",)))
    if not oshape:
        return val(())
    return st.alloc(Arr(oshape, val, (), "int"), "arr")


@reg("numpy.argmin")
def np_argmin(interp, st, args, kwargs):
    return _arg_extreme(interp, st, args, kwargs, False)


@reg("numpy.argmax")
def np_argmax(interp, st, args, kwargs):
    return _arg_extreme(interp, st, args, kwargs, True)


REG["numpy.amax"] = REG["numpy.max"]
REG["numpy.amin"] = REG["numpy.min"]


def _may_be_nan(a):
    """can a generic cell of the array be NaN in the model?"""
    if a.sort == "xreal":
        return True
    if isinstance(a, CArr):
        return any(isinstance(v, T.XR) for v in a.data.values())
    try:
        return isinstance(a.get(tuple(T.Fresh.int("hx") for _ in a.shape)), T.XR)
    except Unsupported:
        return False


def _nan_extreme(is_max):
    def f(interp, st, args, kwargs):
        """np.nanmax / np.nanmin.  Arrays without NaN cells: np.max / np.min.  Arrays whose cells may be NaN (1-d, no axis):
        ValueError for an empty array (numpy: zero-size array to reduction operation), otherwise *some* possibly-NaN number
        (numpy: the extreme of the non-NaN cells, NaN if there is none) -- the value itself is left unspecified."""
        a = _val(st, args[0])
        if not isinstance(a, Arr) or not _may_be_nan(a):
            return (np_max if is_max else np_min)(interp, st, args, kwargs)
        if len(args) == 1 and not kwargs and a.ndim == 0:
            return a.get(())          # 0-d array: its only cell (numpy: NaN with a RuntimeWarning when that cell is NaN)
        if len(args) > 1 or kwargs or a.ndim != 1:
            raise Unsupported("np.nanmax/nanmin of possibly-NaN cells: only 1-d arrays without axis")
        from .interp import PyRaise
        if not interp.truth(st, T.cmp(">", a.shape[0], 0)):
            raise PyRaise(ExcVal("ValueError", ("zero-size array to reduction operation",)))
        return T.xr(T.Fresh.real("nanext"), T.Fresh.bool("nanext_nan"))
    return f


reg("numpy.nanmax")(_nan_extreme(True))
reg("numpy.nanmin")(_nan_extreme(False))


@reg("numpy.nansum")
def np_nansum(interp, st, args, kwargs):
    """np.nansum: the sum with NaN cells counted as zero (booleans count as 0 / 1)"""
    a = _val(st, args[0])
    axis = kwargs.get("axis", args[1] if len(args) > 1 else None)
    if isinstance(a, (list, tuple)):
        a = carr_from_list(_deep_list(st, a))
    if not isinstance(a, Arr):
        return T.ite(T.xnan(a), Fraction(0), T.xval(a)) if isinstance(a, T.XR) else a
    if _may_be_nan(a):
        a = st.deref(ew(st, lambda v: T.ite(T.xnan(v), Fraction(0), T.xval(v)) if isinstance(v, T.XR) else v, a))
    return reduce_sum(st, a, axis)


def quant_all(a, pred=lambda v: v):
    """forall cells. pred(cell)"""
    if isinstance(a, CArr):
        return T.land(*[pred(a.data[k]) for k in a.indices()])
    ix = [T.Fresh.int("q") for _ in a.shape]
    rng = T.land(*[z3.And(i >= 0, i < T.to_z3(n)) for i, n in zip(ix, a.shape)])
    body = pred(a.get(tuple(ix)))
    if isinstance(body, bool):
        return body if body else T.lnot(T.land(*[T.cmp(">", n, 0) for n in a.shape]))
    return z3.ForAll(ix, z3.Implies(rng, body))


def _reduce_bool_axes(st, a, axis, is_all):
    """np.all / np.any over the given axes -> boolean array over the remaining ones"""
    axis = st.deref(axis)
    axes = [axis] if isinstance(axis, int) else [st.deref(x) for x in axis]
    if not all(isinstance(x, int) for x in axes):
        raise Unsupported("symbolic axis")
    axes = sorted({x + a.ndim if x < 0 else x for x in axes})
    if not axes:
        return st.alloc(Arr(a.shape, a.get, (), "bool"), "arr")
    keep = [k for k in range(a.ndim) if k not in axes]
    oshape = tuple(a.shape[k] for k in keep)

    def base(ix, a=a, axes=axes, keep=keep):
        qs = {k: T.Fresh.int("q") for k in axes}
        full = [None] * a.ndim
        for j, k in enumerate(keep):
            full[k] = ix[j]
        for k in axes:
            full[k] = qs[k]
        cell = a.get(tuple(full))
        if isinstance(cell, bool):
            nonempty = T.land(*[T.cmp(">", a.shape[k], 0) for k in axes])
            return T.lor(cell, T.lnot(nonempty)) if is_all else T.land(cell, nonempty)
        if all(isinstance(a.shape[k], int) for k in axes) and _size([a.shape[k] for k in axes]) <= 64:
            cells = []
            for combo in itertools.product(*[range(a.shape[k]) for k in axes]):
                cells.append(z3.substitute(cell, *[(qs[k], z3.IntVal(c)) for k, c in zip(axes, combo)]))
            return T.land(*cells) if is_all else T.lor(*cells)
        rng = z3.And(*[z3.And(qs[k] >= 0, qs[k] < T.to_z3(a.shape[k])) for k in axes])
        vs = [qs[k] for k in axes]
        return z3.ForAll(vs, z3.Implies(rng, cell)) if is_all else z3.Exists(vs, z3.And(rng, cell))
    r = Arr(oshape, base, (), "bool")
    if not oshape:
        return r.get(())
    return st.alloc(r, "arr")


@reg("numpy.all")
def np_all(interp, st, args, kwargs):
    a = _val(st, args[0])
    if not isinstance(a, Arr):
        return a
    axis = kwargs.get("axis", args[1] if len(args) > 1 else None)
    if axis is not None:
        return _reduce_bool_axes(st, a, axis, True)
    return quant_all(a)


@reg("numpy.any")
def np_any(interp, st, args, kwargs):
    a = _val(st, args[0])
    if not isinstance(a, Arr):
        return a
    axis = kwargs.get("axis", args[1] if len(args) > 1 else None)
    if axis is not None:
        return _reduce_bool_axes(st, a, axis, False)
    return T.lnot(quant_all(a, T.lnot))


@reg("numpy.linspace")
def np_linspace(interp, st, args, kwargs):
    a = [st.deref(x) for x in args]
    start, stop = a[0], a[1]
    num = a[2] if len(a) > 2 else kwargs.get("num", 50)
    endpoint = kwargs.get("endpoint", True)
    div = T.sub(num, 1) if endpoint else num
    step = T.div(T.sub(stop, start), div)
    r = Arr((num,), lambda ix: T.add(start, T.mul(ix[0], step)), (), "real")
    return st.alloc(materialise(r), "arr")


@reg("numpy.arange")
def np_arange(interp, st, args, kwargs):
    a = [st.deref(x) for x in args]
    lo, hi = (0, a[0]) if len(a) == 1 else (a[0], a[1])
    if len(a) > 2 and a[2] != 1:
        raise Unsupported("arange step")
    r = Arr((T.sub(hi, lo),), lambda ix: T.add(lo, ix[0]), (), "int")
    return st.alloc(materialise(r), "arr")


@reg("numpy.diff")
def np_diff(interp, st, args, kwargs):
    a = _val(st, args[0])
    if isinstance(a, Obj):
        aa = obj_as_array(interp, st, a)      # np.diff(DataArray): numpy's view of its values (np.asanyarray)
        if aa is not NotImplemented:
            a = aa
    if not isinstance(a, Arr) or a.ndim != 1:
        raise Unsupported("np.diff of non-1d")
    n = a.shape[0]
    pre = st.deref(kwargs["prepend"]) if "prepend" in kwargs else None
    app = st.deref(kwargs["append"]) if "append" in kwargs else None
    for x in (pre, app):
        if isinstance(x, Arr) and x.ndim != 0:
            raise Unsupported("np.diff prepend/append array")
        if isinstance(x, Obj) and not (x.cls == "DataArray" and not x.fields["dims"]):
            raise Unsupported("np.diff prepend/append object")
    def _scalar(x):
        if isinstance(x, Obj) and x.cls == "DataArray" and not x.fields["dims"]:
            return x.fields["arr"].get(())
        return x.get(()) if isinstance(x, Arr) else x
    pre, app = _scalar(pre), _scalar(app)
    off = 1 if pre is not None else 0
    total = T.add(n, (1 if pre is not None else 0) + (1 if app is not None else 0))

    def ext(i):
        j = T.sub(i, off)
        v = a.get((j,))
        if pre is not None:
            v = T.ite(T.cmp("==", i, 0), pre, v)
        if app is not None:
            v = T.ite(T.cmp("==", j, n), app, v)
        return v
    r = Arr((T.sub(total, 1),), lambda ix: T.sub(ext(T.add(ix[0], 1)), ext(ix[0])), (), "real")
    return st.alloc(materialise(r) if isinstance(a, CArr) else r, "arr")


@reg("numpy.linalg.norm")
def np_linalg_norm(interp, st, args, kwargs):
    """2-norm of a 1-d array (no ord / axis): sqrt of the sum of squares"""
    a = _val(st, args[0])
    if len(args) > 1 or kwargs or not isinstance(a, Arr) or a.ndim != 1:
        raise Unsupported("np.linalg.norm: only the 2-norm of a 1-d array is modelled")
    sq = st.deref(ew(st, lambda v: T.mul(v, v), a))
    return T.uf("sqrt", reduce_sum(st, sq, None))


@reg("numpy.linalg.lstsq")
def np_linalg_lstsq(interp, st, args, kwargs):
    """least squares: only the shape of the solution is modelled (cells unspecified, finite reals)"""
    a = _val(st, args[0])
    b = _val(st, args[1])
    if not isinstance(a, Arr) or a.ndim != 2 or not isinstance(b, Arr) or b.ndim != 1:
        raise Unsupported("np.linalg.lstsq: only matrix / vector")
    return (_alloc_uninit(st, (a.shape[1],), "lstsq_x"), Opaque("lstsq.residuals"), Opaque("lstsq.rank"), Opaque("lstsq.sv"))


@reg("numpy.roll")
def np_roll(interp, st, args, kwargs):
    a = _val(st, args[0])
    shift = st.deref(args[1]) if len(args) > 1 else st.deref(kwargs["shift"])
    if not isinstance(a, Arr) or a.ndim != 1 or len(args) > 2 or "axis" in kwargs:
        raise Unsupported("np.roll: only 1-d arrays")
    n = a.shape[0]
    r = Arr((n,), lambda ix, a=a, n=n, shift=shift: a.get((T.mod(T.sub(ix[0], shift), n),)), (), a.sort)
    return st.alloc(materialise(r) if isinstance(a, CArr) else r, "arr")


@reg("numpy.errstate")
def np_errstate(interp, st, args, kwargs):
    return Opaque("errstate")


# --------------------------------------------------------------------------- builtins
@reg("builtins.len", True)
def b_len(interp, st, args, kwargs):
    x = _val(st, args[0])
    if isinstance(x, (list, tuple, dict, str, frozenset)):
        return len(x)
    if isinstance(x, Arr):
        if x.ndim == 0:
            raise Unsupported("len of 0-d")
        return x.shape[0]
    for p in PLUGINS:
        f = getattr(p, "special_len", None)
        if f:
            r = f(interp, st, x)
            if r is not NotImplemented:
                return r
    raise Unsupported(f"len of {type(x).__name__}")


@reg("builtins.range", True)
def b_range(interp, st, args, kwargs):
    a = [T._b2n(st.deref(x)) for x in args]
    if len(a) == 1:
        return RangeVal(0, a[0], 1)
    if len(a) == 2:
        return RangeVal(a[0], a[1], 1)
    return RangeVal(a[0], a[1], a[2])


REG["numba.prange"] = REG["builtins.range"]


@reg("builtins.abs", True)
def b_abs(interp, st, args, kwargs):
    x = _val(st, args[0])
    if isinstance(x, Arr):
        return ew(st, T.absv, x)
    return T.absv(x)


def _minmax(is_max):
    def f(interp, st, args, kwargs):
        xs = [st.deref(a) for a in args]
        if len(xs) == 1:
            x = xs[0]
            if isinstance(x, Arr):
                return reduce_extreme(interp, st, x, is_max)
            xs = [st.deref(e) for e in interp.iterate(st, x)]
        m = xs[0]
        for v in xs[1:]:
            m = T.ite(T.cmp(">" if is_max else "<", v, m), v, m)
        return m
    return f


reg("builtins.max", True)(_minmax(True))
reg("builtins.min", True)(_minmax(False))


@reg("builtins.int", True)
def b_int(interp, st, args, kwargs):
    x = _val(st, args[0])
    if isinstance(x, bool):
        return int(x)
    if isinstance(x, int):
        return x
    if isinstance(x, Fraction):
        return int(x)  # truncation toward zero
    if isinstance(x, str):
        try:
            return int(x)
        except ValueError:
            from .interp import PyRaise
            raise PyRaise(ExcVal("ValueError", ("int()",)))
    if is_sym(x):
        if z3.is_int(x):
            return x
        if z3.is_bool(x):
            return T._b2n(x)
        fl = z3.ToInt(x)
        return z3.If(x >= 0, fl, -z3.ToInt(-x))
    raise Unsupported("int() of this value")


@reg("builtins.float", True)
def b_float(interp, st, args, kwargs):
    x = _val(st, args[0])
    if isinstance(x, (int, Fraction)):
        return Fraction(x)
    if is_sym(x):
        return T.to_real(x)
    if isinstance(x, str):
        if x in ("inf", "+inf"):
            return T.INF
        try:
            return Fraction(x)
        except Exception:
            pass
    raise Unsupported("float() of this value")


@reg("builtins.bool", True)
def b_bool(interp, st, args, kwargs):
    return interp.truth(st, args[0])


@reg("builtins.str", True)
def b_str(interp, st, args, kwargs):
    x = _val(st, args[0])
    if isinstance(x, str):
        return x
    if isinstance(x, int) and not isinstance(x, bool):
        return str(x)
    return Opaque("str()")


@reg("builtins.print", True)
def b_print(interp, st, args, kwargs):
    # the only modelled effect: a ghost counter (contracts can tell "a message was printed" paths apart)
    st.ghost["printed"] = st.ghost.get("printed", 0) + 1
    return None


@reg("builtins.tuple", True)
def b_tuple(interp, st, args, kwargs):
    return tuple(interp.iterate(st, args[0])) if args else ()


class RangeList:
    """list(range(lo, hi)) of symbolic length: the integers lo .. hi-1 in order.  Only np.array(...) of it is modelled
    (any other use of the value is unsupported)."""

    def __init__(self, lo, hi):
        self.lo, self.hi = lo, hi


@reg("builtins.list", True)
def b_list(interp, st, args, kwargs):
    if args:
        src = st.deref(args[0])
        if isinstance(src, RangeVal) and src.step == 1 and not all(isinstance(x, int) for x in (src.lo, src.hi)):
            return RangeList(src.lo, src.hi)
    return st.alloc(list(interp.iterate(st, args[0])) if args else [], "list")


@reg("builtins.dict", True)
def b_dict(interp, st, args, kwargs):
    d = {}
    if args:
        src = st.deref(args[0])
        if isinstance(src, dict):
            d.update(src)
        else:
            for kv in interp.iterate(st, src):
                k, v = interp.iterate(st, kv)
                d[k] = v
    d.update(kwargs)
    return st.alloc(d, "dict")


class EnumVal:
    """enumerate(a) for an array whose length is symbolic (consumed by `for i, x in ...`)"""

    def __init__(self, src):
        self.src = src


@reg("builtins.enumerate", True)
def b_enumerate(interp, st, args, kwargs):
    start = args[1] if len(args) > 1 else kwargs.get("start", 0)
    a0 = st.deref(args[0])
    if isinstance(a0, Arr) and a0.ndim >= 1 and not isinstance(a0.shape[0], int) and start == 0:
        return EnumVal(args[0])
    return st.alloc([(i + start, x) for i, x in enumerate(interp.iterate(st, args[0]))], "list")


@reg("builtins.zip", True)
def b_zip(interp, st, args, kwargs):
    return st.alloc(list(zip(*[interp.iterate(st, a) for a in args])), "list")


@reg("builtins.reversed", True)
def b_reversed(interp, st, args, kwargs):
    return st.alloc(list(reversed(interp.iterate(st, args[0]))), "list")


@reg("builtins.sum", True)
def b_sum(interp, st, args, kwargs):
    x = _val(st, args[0])
    if isinstance(x, Arr):
        return reduce_sum(st, x, None)
    acc = st.deref(args[1]) if len(args) > 1 else 0
    for v in interp.iterate(st, x):
        acc = interp.binop(st, "Add", acc, v)
    return acc


@reg("builtins.any", True)
def b_any(interp, st, args, kwargs):
    x = _val(st, args[0])
    if isinstance(x, Arr):
        return T.lnot(quant_all(x, T.lnot))
    acc = False
    for v in interp.iterate(st, x):
        v = st.deref(v)
        acc = T.lor(acc, v if T.is_boolish(v) else interp.truth(st, v))
    return acc


@reg("builtins.all", True)
def b_all(interp, st, args, kwargs):
    x = _val(st, args[0])
    if isinstance(x, Arr):
        return quant_all(x)
    acc = True
    for v in interp.iterate(st, x):
        v = st.deref(v)
        acc = T.land(acc, v if T.is_boolish(v) else interp.truth(st, v))
    return acc


@reg("builtins.sorted", True)
def b_sorted(interp, st, args, kwargs):
    xs = interp.iterate(st, args[0])
    if all(isinstance(x, (int, str, Fraction)) for x in xs) and "key" not in kwargs:
        return st.alloc(sorted(xs, reverse=bool(kwargs.get("reverse", False))), "list")
    # stable sort of a concrete-length list with (possibly symbolic) numeric keys: insertion sort whose
    # comparisons are decided by the path explorer (one path per feasible order)
    keyf = kwargs.get("key")
    rev = bool(st.deref(kwargs.get("reverse", False)))
    keys = [st.deref(interp.call(st, keyf, [x], {})) if keyf is not None else st.deref(x) for x in xs]
    if not all(T.is_num(k) for k in keys):
        raise Unsupported("sorted with non-numeric keys")
    out = []      # list of (key, item), kept in final order
    for k, x in zip(keys, xs):
        pos = len(out)
        # stable: the new element goes after every element that does not have to come after it
        while pos > 0:
            kp = out[pos - 1][0]
            before = T.cmp(">", kp, k) if not rev else T.cmp("<", kp, k)   # must the earlier element move behind the new one?
            if interp.truth(st, before):
                pos -= 1
            else:
                break
        out.insert(pos, (k, x))
    return st.alloc([x for _, x in out], "list")


@reg("builtins.round", True)
def b_round(interp, st, args, kwargs):
    x = _val(st, args[0])
    if isinstance(x, (int, Fraction)) and len(args) == 1:
        return round(x)
    raise Unsupported("round")


for _t in ("int", "float", "str", "bool", "list", "tuple", "dict", "type", "object", "complex", "bytes", "set"):
    REG["type:" + _t] = TypeTag(_t)
REG["numbers.Number"] = TypeTag("Number")
REG["numbers.Real"] = TypeTag("Number")
for _n in ("Optional", "Union", "Sequence", "Tuple", "List", "Dict", "Callable", "Mapping", "TypeVar",
           "Literal", "TypedDict", "Any", "Iterable", "Type", "Iterator"):
    REG["typing." + _n] = Opaque("typing." + _n)


def type_of(st, v):
    v = st.deref(v)
    if isinstance(v, bool) or (is_sym(v) and z3.is_bool(v)):
        return "bool"
    if isinstance(v, int) or (is_sym(v) and z3.is_int(v)):
        return "int"
    if isinstance(v, Fraction) or (is_sym(v) and z3.is_real(v)):
        return "float"
    if isinstance(v, str):
        return "str"
    if isinstance(v, list):
        return "list"
    if isinstance(v, tuple):
        return "tuple"
    if isinstance(v, dict):
        return "dict"
    if isinstance(v, Arr):
        return "numpy.ndarray"
    if v is None:
        return "NoneType"
    return None


_ISA = {"int": {"int", "bool"}, "float": {"float"}, "str": {"str"}, "bool": {"bool"}, "list": {"list"},
        "tuple": {"tuple"}, "dict": {"dict"}, "numpy.ndarray": {"numpy.ndarray"},
        "Number": {"int", "float", "bool"}, "numpy.float64": {"float"}, "numpy.int64": set(),
        "object": None}


@reg("builtins.isinstance", True)
def b_isinstance(interp, st, args, kwargs):
    v, typ = st.deref(args[0]), st.deref(args[1])
    typs = list(typ) if isinstance(typ, tuple) else [typ]
    res = False
    for t in typs:
        t = st.deref(t)
        if isinstance(t, LibFunc) and ("type:" + t.name.split(".")[-1]) in REG:
            t = REG["type:" + t.name.split(".")[-1]]
        if isinstance(v, Obj):
            r = obj_isinstance(interp, st, v, t)
            res = res or bool(r)
            continue
        if isinstance(t, TypeTag):
            tv = type_of(st, v)
            if tv is None:
                for p in PLUGINS:
                    f = getattr(p, "value_isinstance", None)
                    if f:
                        r = f(interp, st, v, t)
                        if r is not NotImplemented:
                            res = res or r
                            break
                else:
                    if not isinstance(v, (Opaque, FuncVal, LibFunc)):
                        raise Unsupported(f"isinstance of {type(v).__name__}")
                continue
            isa = _ISA.get(t.name, set())
            if isa is None or tv in isa:
                res = True
        elif isinstance(t, ClassVal):
            continue
        elif isinstance(t, Opaque):
            raise Unsupported("isinstance against typing construct")
        else:
            raise Unsupported(f"isinstance against {t!r}")
    return res


@reg("builtins.type", True)
def b_type(interp, st, args, kwargs):
    v = st.deref(args[0])
    if isinstance(v, Obj):
        return v.cls
    t = type_of(st, v)
    if t is None:
        raise Unsupported("type() of this value")
    return TypeTag(t)


@reg("builtins.hasattr", True)
def b_hasattr(interp, st, args, kwargs):
    try:
        interp.getattr(st, args[0], st.deref(args[1]))
        return True
    except Unsupported:
        return False


@reg("builtins.getattr", True)
def b_getattr(interp, st, args, kwargs):
    if len(args) > 2:
        try:
            return interp.getattr(st, args[0], st.deref(args[1]))
        except Unsupported:
            return args[2]
    return interp.getattr(st, args[0], st.deref(args[1]))


@reg("builtins.setattr", True)
def b_setattr(interp, st, args, kwargs):
    name = st.deref(args[1])
    if not isinstance(name, str):
        raise Unsupported("setattr with a non-concrete attribute name")
    interp.setattr(st, args[0], name, args[2])
    return None


@reg("builtins.super", True)
def b_super(interp, st, args, kwargs):
    if len(args) == 2:
        cls, selfv = st.deref(args[0]), args[1]
    else:
        selfv = st.env.lookup("self")
        cls = None
        e = st.env
        raise Unsupported("zero-argument super()")
    return SuperProxy(cls, selfv)


class SuperProxy:
    def __init__(self, cls, selfv):
        self.cls, self.selfv = cls, selfv


# --------------------------------------------------------------------------- attributes of plain values
def value_getattr(interp, st, ref, o, name):
    for p in PLUGINS:
        f = getattr(p, "value_getattr", None)
        if f:
            r = f(interp, st, ref, o, name)
            if r is not NotImplemented:
                return r
    if isinstance(o, TypeTag):
        if name in o.attrs:
            return o.attrs[name]
        if name == "__name__":
            return o.name
        raise Unsupported(f"attribute {name} of type {o.name}")
    if isinstance(o, SuperProxy):
        for b in o.cls.bases:
            found = interp.class_lookup(b, name)
            if found:
                return BoundMethod(found[0], o.selfv)
        if name == "__init__":
            return LibFunc("object.__init__", lambda i, s, a, k: None)
        raise Unsupported(f"super().{name}")
    if isinstance(o, Arr):
        if name == "shape":
            return tuple(o.shape)
        if name == "ndim":
            return o.ndim
        if name == "size":
            return o.size()
        if name == "values":
            return ref
        if name == "dtype":
            return Opaque("dtype")
        if name == "T" and o.ndim == 2:
            r = Arr((o.shape[1], o.shape[0]), lambda ix: o.get((ix[1], ix[0])), (), o.sort)
            return st.alloc(materialise(r) if isinstance(o, CArr) else r, "arr")
        if name == "copy":
            return LibFunc("ndarray.copy", lambda i, s, a, k: np_array(i, s, [ref], {}))
        if name == "astype":
            return LibFunc("ndarray.astype", lambda i, s, a, k: np_array(i, s, [ref], {}))
        if name == "sum":
            return LibFunc("ndarray.sum", lambda i, s, a, k: np_sum(i, s, [ref] + list(a), k))
        if name == "max":
            return LibFunc("ndarray.max", lambda i, s, a, k: np_max(i, s, [ref] + list(a), k))
        if name == "min":
            return LibFunc("ndarray.min", lambda i, s, a, k: np_min(i, s, [ref] + list(a), k))
        if name == "all":
            return LibFunc("ndarray.all", lambda i, s, a, k: np_all(i, s, [ref] + list(a), k))
        if name == "any":
            return LibFunc("ndarray.any", lambda i, s, a, k: np_any(i, s, [ref] + list(a), k))
        if name == "flatten" and o.ndim == 1:
            return LibFunc("ndarray.flatten", lambda i, s, a, k: np_array(i, s, [ref], {}))
    if isinstance(o, dict):
        if name == "copy":
            return LibFunc("dict.copy", lambda i, s, a, k: s.alloc(dict(o), "dict"))
        if name == "keys":
            return LibFunc("dict.keys", lambda i, s, a, k: s.alloc(list(o.keys()), "list"))
        if name == "values":
            return LibFunc("dict.values", lambda i, s, a, k: s.alloc(list(o.values()), "list"))
        if name == "items":
            return LibFunc("dict.items", lambda i, s, a, k: s.alloc(list(o.items()), "list"))
        if name == "get":
            return LibFunc("dict.get", lambda i, s, a, k: o.get(s.deref(a[0]), a[1] if len(a) > 1 else None))
        if name == "pop":
            def pop(i, s, a, k):
                key = s.deref(a[0])
                if key in o:
                    return o.pop(key)
                if len(a) > 1:
                    return a[1]
                from .interp import PyRaise
                raise PyRaise(ExcVal("KeyError", (key,)))
            return LibFunc("dict.pop", pop)
        if name == "update":
            def upd(i, s, a, k):
                if a:
                    o.update(s.deref(a[0]))
                o.update(k)
            return LibFunc("dict.update", upd)
    if isinstance(o, list):
        if name == "append":
            return LibFunc("list.append", lambda i, s, a, k: o.append(a[0]))
        if name == "extend":
            return LibFunc("list.extend", lambda i, s, a, k: o.extend(i.iterate(s, a[0])))
        if name == "pop":
            def lpop(i, s, a, k):
                if not o:
                    from .interp import PyRaise
                    raise PyRaise(ExcVal("IndexError", ("pop from empty list",)))
                return o.pop(*[s.deref(x) for x in a])
            return LibFunc("list.pop", lpop)
        if name == "copy":
            return LibFunc("list.copy", lambda i, s, a, k: s.alloc(list(o), "list"))
        if name == "index":
            return LibFunc("list.index", lambda i, s, a, k: o.index(s.deref(a[0])))
        if name == "insert":
            return LibFunc("list.insert", lambda i, s, a, k: o.insert(s.deref(a[0]), a[1]))
        if name == "reverse":
            return LibFunc("list.reverse", lambda i, s, a, k: o.reverse())
    if isinstance(o, tuple):
        if name == "index":
            return LibFunc("tuple.index", lambda i, s, a, k: o.index(s.deref(a[0])))
    if isinstance(o, str):
        if name in ("lower", "upper", "strip"):
            return LibFunc("str." + name, lambda i, s, a, k: getattr(o, name)(*[s.deref(x) for x in a]))
        if name in ("startswith", "endswith", "split", "replace", "format", "join", "find", "rsplit"):
            def sm(i, s, a, k):
                aa = [s.deref(x) for x in a]
                if name == "join":
                    aa = [[s.deref(e) for e in i.iterate(s, a[0])]]
                if any(not isinstance(e, (str, int, list, tuple)) for e in aa):
                    return Opaque("str." + name)
                r = getattr(o, name)(*aa)
                return s.alloc(r, "list") if isinstance(r, list) else r
            return LibFunc("str." + name, sm)
    if isinstance(o, ExcVal):
        if name == "args":
            return o.args
    return NotImplemented


def _xr_dataarray(interp, st, args, kwargs):
    """xarray.DataArray(data=..., coords=..., dims=...): the values are `data` (coordinates are not modelled here;
    the xarray plugin overrides this entry when it is loaded)"""
    return kwargs["data"] if "data" in kwargs else args[0]


REG["xarray.DataArray"] = TypeTag("xarray.DataArray", _xr_dataarray)
