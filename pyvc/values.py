"""Run-time values of the symbolic executor."""
from fractions import Fraction
import itertools
import z3
from . import terms as T
from .terms import Unsupported, is_sym


class Ref:
    """Reference to a mutable heap object (array, list, dict, object)."""
    _n = itertools.count(1)
    __slots__ = ("id", "hint")

    def __init__(self, hint=""):
        self.id = next(Ref._n)
        self.hint = hint

    def __repr__(self):
        return f"<ref {self.id} {self.hint}>"


class Arr:
    """n-d array value: shape + total map idx -> scalar, as a base function plus an ordered
    list of guarded updates (later wins)."""

    def __init__(self, shape, base, ups=(), sort="real", name=""):
        self.shape = tuple(shape)
        self.base = base
        self.ups = list(ups)
        self.sort = sort
        self.name = name

    @property
    def ndim(self):
        return len(self.shape)

    def get(self, idx):
        idx = tuple(idx)
        v = self.base(idx)
        for g, f in self.ups:
            c = g(idx)
            if c is False:
                continue
            v = T.ite(c, f(idx), v)
        return v

    def updated(self, guard, valfn):
        return Arr(self.shape, self.base, self.ups + [(guard, valfn)], self.sort, self.name)

    def concrete_shape(self):
        return all(isinstance(s, int) for s in self.shape)

    def size(self):
        n = 1
        for s in self.shape:
            n = T.mul(n, s)
        return n

    def indices(self):
        return itertools.product(*[range(s) for s in self.shape])


class CArr(Arr):
    """Array with concrete shape and materialised cells (values may be symbolic)."""

    def __init__(self, shape, data, sort="real", name=""):
        self.shape = tuple(shape)
        self.data = dict(data)
        self.sort = sort
        self.name = name
        self.ups = []
        self.base = None

    def get(self, idx):
        idx = tuple(idx)
        if all(isinstance(i, int) for i in idx):
            idx = tuple(i + s if i < 0 else i for i, s in zip(idx, self.shape))
            if idx not in self.data:
                raise Unsupported(f"index {idx} out of bounds for shape {self.shape}")
            return self.data[idx]
        v = None
        for k in self.indices():
            c = T.land(*[T.cmp("==", i, kk) for i, kk in zip(idx, k)])
            v = self.data[k] if v is None else T.ite(c, self.data[k], v)
        return v

    def updated(self, guard, valfn):
        nd = {}
        for k in self.indices():
            c = guard(k)
            nd[k] = T.ite(c, valfn(k), self.data[k]) if c is not False else self.data[k]
        return CArr(self.shape, nd, self.sort, self.name)

    def tolist(self):
        if self.ndim != 1:
            raise Unsupported("tolist on n-d")
        return [self.data[(i,)] for i in range(self.shape[0])]


def materialise(a, limit=4096):
    if isinstance(a, CArr) or not a.concrete_shape():
        return a
    n = 1
    for s in a.shape:
        n *= s
    if n > limit:
        return a
    return CArr(a.shape, {k: a.get(k) for k in a.indices()}, a.sort, a.name)


def carr_from_list(xs, sort="real"):
    def shape_of(x):
        if isinstance(x, (list, tuple)):
            return (len(x),) + (shape_of(x[0]) if x else ())
        return ()
    shp = shape_of(xs)
    data = {}
    for k in itertools.product(*[range(s) for s in shp]):
        v = xs
        for i in k:
            v = v[i]
        data[k] = v
    return CArr(shp, data, sort)


def sym_array(name, shape, sort="real"):
    if sort == "xreal":
        # cells may be NaN: value function + flag function (terms.XR)
        f = z3.Function(name, *([T.IntS] * len(shape)), T.RealS)
        g = z3.Function(name + "__nan", *([T.IntS] * len(shape)), T.BoolS)
        a = Arr(shape, lambda idx, f=f, g=g: T.xr(f(*[T.to_z3(i) for i in idx]), g(*[T.to_z3(i) for i in idx])), (), sort, name)
        a.func, a.nanfunc = f, g
        return a
    zs = T.RealS if sort == "real" else (T.IntS if sort == "int" else T.BoolS)
    f = z3.Function(name, *([T.IntS] * len(shape)), zs)
    a = Arr(shape, lambda idx, f=f: f(*[T.to_z3(i) for i in idx]), (), sort, name)
    a.func = f
    return a


def cell_sort(a):
    """sort for a fresh array standing for `a` (havoc): 'xreal' when a generic cell may be NaN"""
    if a.sort == "xreal":
        return "xreal"
    try:
        v = a.get(tuple(T.Fresh.int("hx") for _ in a.shape))
    except Unsupported:
        return a.sort
    return "xreal" if isinstance(v, T.XR) else a.sort


class Obj:
    """Instance of a repository class (or an abstract record)."""

    def __init__(self, cls, fields=None):
        self.cls = cls
        self.fields = dict(fields or {})

    def copy(self):
        return Obj(self.cls, self.fields)


class FuncVal:
    def __init__(self, module, node, qualname, cls=None, closure=None):
        self.module, self.node, self.qualname, self.cls, self.closure = module, node, qualname, cls, closure

    def __repr__(self):
        return f"<func {self.qualname}>"


class ClassVal:
    def __init__(self, module, node, qualname):
        self.module, self.node, self.qualname = module, node, qualname
        self.bases = []

    def __repr__(self):
        return f"<class {self.qualname}>"


class BoundMethod:
    def __init__(self, func, self_val):
        self.func, self.self_val = func, self_val


class LibFunc:
    def __init__(self, name, impl):
        self.name, self.impl = name, impl

    def __repr__(self):
        return f"<lib {self.name}>"


class ModVal:
    def __init__(self, name):
        self.name = name

    def __repr__(self):
        return f"<module {self.name}>"


class ExcVal:
    def __init__(self, typ, args=()):
        self.typ, self.args = typ, args

    def __repr__(self):
        return f"{self.typ}{self.args}"


class ExcType:
    HIER = {"Exception": None, "ValueError": "Exception", "TypeError": "Exception",
            "KeyError": "LookupError", "IndexError": "LookupError", "LookupError": "Exception",
            "ZeroDivisionError": "ArithmeticError", "ArithmeticError": "Exception",
            "RuntimeError": "Exception", "NotImplementedError": "RuntimeError",
            "AttributeError": "Exception", "OSError": "Exception", "FileNotFoundError": "OSError",
            "FileExistsError": "OSError", "PermissionError": "OSError", "RecursionError": "RuntimeError",
            "StopIteration": "Exception", "AssertionError": "Exception",
            "BaseException": None, "KeyboardInterrupt": "BaseException"}

    def __init__(self, name):
        self.name = name

    def issub(self, other):
        n = self.name
        while n is not None:
            if n == other:
                return True
            n = ExcType.HIER.get(n, "Exception" if n != "Exception" and n != "BaseException" else None)
        return other == "BaseException"


class Poison:
    """A value the loop summariser could not characterise; using it is unsupported."""

    def __init__(self, why):
        self.why = why


class Opaque:
    """Opaque library value (strings built by f-strings, loggers, ...)."""

    def __init__(self, what):
        self.what = what

    def __repr__(self):
        return f"<opaque {self.what}>"
