"""C14 — wiring above the periodic kernels.

  interpolate/dataset.py::interpolate_dataset_along_axis   along `direction` / `longitude` (periodic by default, period 360): the callee
                                                           NdInterpolator.interpolate carries the periodic-coordinate kernel contract of C14
"""
from pyvc.api import *
from pyvc.api import CalleeContract
import pyvc.terms as T
from pyvc.values import Arr, Obj, Ref
import contracts.C13 as C13
import contracts.C13_wiring as W
import contracts.C14 as K

# ------------------------------------------------------------------ interpolate_dataset_along_axis along a periodic coordinate
KERNELS = {"plain": W.PLAIN_KERNELS["plain"], "periodic": {False: K.ndp_linear, True: K.ndp_nearest}}
# the periodic-coordinate kernel is verified for rank 1 and 2
VARIABLES = [("variance_density", (W.PASSIVE, "@")), ("a", ("@",)), ("c", ("@", W.PASSIVE)), ("spread_per_direction", ("@",)), ("depth", (W.PASSIVE,))]
INSTANCES = [("direction,linear", False, None, None, VARIABLES), ("direction,nearest", True, None, None, VARIABLES),
             ("direction,callers_period_elsewhere", False, None, {"longitude": 360}, VARIABLES)]      # caller: direction not periodic -> plain kernel


def _req(clauses):
    def on(fn):
        return lambda a: fn(NS({"xp": W.DSView(a.data_set).var_coord(W._with_coordinate(a)[0], a.coordinate_name), "x": W._targets(a)}))
    return [(l, on(f)) for l, f in clauses]


def _samples(cname, instances):
    return W._axis_samples(cname, instances, grid=lambda rng, n: K._pgrid_small_gaps(rng, bool(rng.integers(0, 2))), targets=K._ptargets)


NOTE = ("value clauses verified in C14 as NdInterpolator.interpolate.periodic_coordinate.linear / .nearest (rank 1, 2) - in C13 when the caller declares the coordinate "
        "non-periodic; angular data (data_period given): only the result shape is assumed, the unit-vector average is bounded")
along_direction = W.axis_contract("interpolate_dataset_along_axis.periodic_coordinate", "direction", KERNELS, INSTANCES,
                                  _req(K.ndp_linear.requires), NOTE, samples=_samples("direction", INSTANCES))
LON_INSTANCES = [("longitude,linear", False, None, None, VARIABLES)]
along_longitude = W.axis_contract("interpolate_dataset_along_axis.longitude", "longitude", KERNELS, LON_INSTANCES,
                                  _req(K.ndp_linear.requires), NOTE, samples=_samples("longitude", LON_INSTANCES))

CONTRACTS = [along_direction, along_longitude]


# ------------------------------------------------------------------ interpolate_at_points: one track interpolation per variable
def _track_result(mk, a):
    """interpolate_track_data_arrray at the call site: uninterpreted (a fresh 1-D DataArray along the independent variable), arguments recorded"""
    import pyvc.models.xr as xr
    st = mk.st
    ind = st.deref(a.independent_variable)
    tr = st.deref(a.tracks)
    m = st.deref(tr[ind]).shape[0]
    res = xr.mk_xa(st, (ind,), st.deref(mk.array("track_values", (m,))), st.deref(mk.array("track_values_nan", (m,), "bool")), {ind: st.deref(tr[ind])})
    rec = {k: getattr(a, k) for k in ("data_array", "tracks", "independent_variable", "periodic_coordinates", "period_data", "discont")}
    rec["independent_variable"] = ind
    rec["result"] = res
    st.ghost["track_calls"] = st.ghost.get("track_calls", ()) + (rec,)
    return res


TRACK_CALL = CalleeContract("interpolate/dataarray.py::interpolate_track_data_arrray", _track_result, assumed=False,
                            note="uninterpreted at this call site (arguments recorded); its own wiring contract is C14.interpolate_track_data_arrray")
POINT_VARS = [("u", ("@", W.PASSIVE)), ("wave_direction", ("@", W.PASSIVE)), ("longitude_of_something", ("@",))]


def _p_points(independent, pdata, pcoords):
    def p(mk):
        st = mk.st
        ds = W.build_dataset(mk, "time", mk.size("n"), POINT_VARS)
        m = mk.size("m")
        pts = st.alloc({"time": mk.array("t", (m,)), W.PASSIVE: mk.array("pp", (m,))}, "points")
        st.ghost["pre_vars"] = {k: v.id for k, v in st.deref(ds).fields["vars"].items()}
        return {"data_set": ds, "points": pts, "independent_variable": independent,
                "periodic_coordinates": None if pcoords is None else st.alloc(dict(pcoords), "periodic_coordinates"),
                "periodic_data": None if pdata is None else st.alloc({k: tuple(v) for k, v in pdata.items()}, "periodic_data")}
    return p


def _ap_calls(a, r):
    """one call per variable, in order: that variable of the caller's data set, the caller's points, the independent variable (default
    `time` when it is a dimension), the caller's periodic coordinates, and (period, discontinuity) = the caller's periodic_data entry of
    that variable - none when there is no entry: WITHOUT periodic_data no variable is treated as angular here"""
    if not W._symbolic(a):
        return True
    st = a._snap
    calls = a._ghost.get("track_calls", ())
    vs = st.deref(a._raw["data_set"]).fields["vars"]
    pd_ = st.deref(a._raw["periodic_data"]) if a._raw["periodic_data"] is not None else {}
    if [None for _ in calls] != [None for _ in vs]:
        return False
    for rec, (name, ref) in zip(calls, vs.items()):
        want = tuple(st.deref(pd_[name])) if name in pd_ else (None, None)
        ok = (W._same_ref(rec["data_array"], ref) and W._same_ref(rec["tracks"], a._raw["points"]) and rec["independent_variable"] == "time"
              and (rec["periodic_coordinates"] is None if a._raw["periodic_coordinates"] is None else W._same_ref(rec["periodic_coordinates"], a._raw["periodic_coordinates"]))
              and (st.deref(rec["period_data"]), st.deref(rec["discont"])) == want)
        if not ok:
            return False
    return True


def _ap_result(a, r):
    """the result holds, under each variable's name, what its track interpolation returned; its coordinate is the points' independent variable"""
    if not W._symbolic(a):
        return True
    st = a._snap
    calls = a._ghost.get("track_calls", ())
    out = st.deref(a._result_raw)
    vs = st.deref(a._raw["data_set"]).fields["vars"]
    if list(out.fields["vars"]) != list(vs) or len(calls) != len(vs):
        return False
    pts = st.deref(a._raw["points"])
    return all(W._same_ref(out.fields["vars"][n], rec["result"]) for n, rec in zip(vs, calls)) and st.deref(pts["time"]) is out.fields["coords"].get("time")


at_points = Contract(W.DS + "interpolate_at_points",
                     instances=[("defaults", _p_points(None, None, None)), ("time,angular_data,periodic_longitude", _p_points("time", {"wave_direction": (360, 180)}, {"longitude": 360}))],
                     ensures=[("one_track_interpolation_per_variable_with_its_periodicity", _ap_calls), ("result_holds_the_track_interpolations", _ap_result),
                              ("operand_unchanged", W._e_operand_unchanged)],
                     callees={TRACK_CALL.target: TRACK_CALL})


# ------------------------------------------------------------------ interpolate_track_data_arrray: the interpolator's parameters
def _ndi_result(mk, a):
    st = mk.st
    f = st.deref(a.self).fields
    names = [st.deref(c) for c in st.deref(f["interp_coord_names"])]
    pts = st.deref(a.points)
    m = st.deref(pts[names[0]]).shape[0]
    pc = st.deref(f["data_periodic_coordinates"])
    res = mk.array("interpolated", (m,), "xreal")
    st.ghost["ndi_calls"] = st.ghost.get("ndi_calls", ()) + ({
        "coordinates": [(st.deref(c)[0], st.deref(c)[1]) for c in st.deref(f["data_coordinates"])], "data_shape": tuple(f["data_shape"]),
        "interp_coord_names": names, "interp_index_coord_name": f["interp_index_coord_name"], "periodic_coordinates": dict(pc) if isinstance(pc, dict) else pc,
        "data_period": f["data_period"], "data_discont": f["data_discont"], "nearest_neighbour": f["nearest_neighbour"], "points": a.points, "result": res},)
    return res


NDI_CALL = CalleeContract(W.ND_INTERPOLATE, _ndi_result, assumed=False,
                          note="multi-linear interpolation at track points: uninterpreted here (state of the object and the points recorded); bounded in C14.bounded.gridded_at_track_points")
TRACK_DIMS = ("time", "latitude", "longitude")


def _p_track(independent, pcoords, period, discont):
    def p(mk):
        import pyvc.models.xr as xr
        st = mk.st
        n, m = mk.size("n"), mk.size("m")
        shape = (n, 2, 3)
        coords = {"time": st.deref(mk.array("time", (n,))), "latitude": st.deref(mk.array("lat", (2,))), "longitude": st.deref(mk.array("lon", (3,)))}
        da = xr.mk_xa(st, TRACK_DIMS, st.deref(mk.array("v", shape)), st.deref(mk.array("v_nan", shape, "bool")), coords, name="v")
        tracks = st.alloc({"latitude": mk.array("tlat", (m,)), "longitude": mk.array("tlon", (m,)), "time": mk.array("tt", (m,))}, "tracks")
        return {"data_array": da, "tracks": tracks, "independent_variable": independent,
                "periodic_coordinates": None if pcoords is None else st.alloc(dict(pcoords), "periodic_coordinates"),
                "period_data": period, "discont": discont}
    return p


def _tr_wiring(a, r):
    """the interpolator gets every dimension with the data array's own coordinate values, the array's shape, the track's coordinates as the
    interpolated ones, `time` (or the caller's choice) as index coordinate, the caller's periodic coordinates (none by default) and the caller's
    data period / discontinuity; linear mode"""
    if not W._symbolic(a):
        return True
    st = a._snap
    calls = a._ghost.get("ndi_calls", ())
    if len(calls) != 1:
        return False
    c = calls[0]
    da = st.deref(a._raw["data_array"])
    tracks = st.deref(a._raw["tracks"])
    pc = dict(st.deref(a._raw["periodic_coordinates"])) if a._raw["periodic_coordinates"] is not None else {}
    return And([d for d, _ in c["coordinates"]] == list(da.fields["dims"]),
               *[W._same_array(st, got, da.fields["coords"][d]) for d, got in c["coordinates"]],
               tuple(c["data_shape"]) == tuple(da.fields["arr"].shape), c["interp_coord_names"] == list(tracks), c["interp_index_coord_name"] == "time",
               c["periodic_coordinates"] == pc, c["data_period"] is a.period_data if a.period_data is None else c["data_period"] == a.period_data,
               c["data_discont"] is a.discont if a.discont is None else c["data_discont"] == a.discont, c["nearest_neighbour"] is False,
               W._same_ref(c["points"], a._raw["tracks"]))


def _tr_result(a, r):
    if not W._symbolic(a):
        return True
    st = a._snap
    calls = a._ghost.get("ndi_calls", ())
    if len(calls) != 1:
        return False
    out = st.deref(a._result_raw)
    res = st.deref(calls[0]["result"])
    got = W.Cells(out)
    tt = st.deref(st.deref(a._raw["tracks"])["time"])
    i = T.Fresh.int("i")
    import z3
    same = z3.ForAll([i], z3.Implies(z3.And(i >= 0, i < T.to_z3(res.shape[0])), T.to_z3(And(eq(got[i], res.get((i,))), eq(out.fields["coords"]["time"].get((i,)), tt.get((i,)))))))
    return And(out.fields["dims"] == ("time",), T.cmp("==", got.shape[0], res.shape[0]), same)


track_data_array = Contract("interpolate/dataarray.py::interpolate_track_data_arrray",
                            instances=[("defaults", _p_track(None, None, None, None)), ("angular_data,periodic_longitude", _p_track("time", {"longitude": 360}, 360, 180)),
                                       ("periodic_coordinate_not_a_dimension", _p_track(None, {"direction": 360}, None, None))],
                            ensures=[("interpolator_parameters", _tr_wiring), ("result_holds_the_interpolated_values_along_the_independent_variable", _tr_result)],
                            raises={"ValueError": lambda a: a.periodic_coordinates is not None and any(k not in TRACK_DIMS for k in a.periodic_coordinates)},
                            callees={W.ND_INTERPOLATE: NDI_CALL}, options={"finite_reals": True})

CONTRACTS = [along_direction, along_longitude, at_points, track_data_array]
