"""Real-code harness for the file cache (C18 / C19).

A `World` is a temporary cache directory, an in-memory remote (`MemResource`, a RemoteResource
subclass with fault injection and a call log) and a *reference model written from the property
statement* (what must be cached, with which bytes, how recently used).  It is used twice:

* by the bounded checks (exhaustive operation histories / fault scenarios on the REAL classes);
* by the replay of counterexamples of the symbolic contracts (native / native_call / args_ns).

File names are computed here from the statement (prefix + md5(uri incl. comment) + postfix), not
taken from the code under test."""
import hashlib
import json
import os
import shutil
import tempfile
import warnings

os.environ.setdefault("TQDM_DISABLE", "1")

PREFIX, POSTFIX = "cachefile_", "_cachefile"
CONFIG = "file_cache_config.json"
SCHEME = "mem://"
FOREIGN = {"notes.txt": b"user notes", "cachefile_not_a_cache_file.txt": b"prefix only",
           "data_cachefile": b"postfix only"}
HEADER = 24


def name_of(uri):
    """cache file name of a (directive-free) uri, comment included"""
    return PREFIX + hashlib.md5(uri.encode()).hexdigest() + POSTFIX


def spec_parse(raw):
    """statement-level grammar: [name=opt;...:]scheme://path[<<comment] -> (key uri, directives, download uri)"""
    head, path = raw.split("://")
    directives = {}
    scheme = head
    if ":" in head:
        dstr, scheme = head.split(":")
        for d in dstr.split(";"):
            k, v = d.split("=")
            directives[k] = v
    key = scheme + "://" + path
    return key, directives, key.split("<<")[0]


def body(cid, size):
    """bytes of a resource: a header naming the content id, padded to `size`"""
    h = ("<" + str(cid) + ">").encode().ljust(HEADER, b".")
    return (h + b"x" * max(0, size - HEADER))[:size]


def postprocessed(data):
    return data + b"+pp"


class InjectedIOError(OSError):
    pass


class PostProcessError(RuntimeError):
    pass


class World:
    def __init__(self, max_bytes=3000, parallel=False, allow_missing=True, sizes=None, root=None):
        from ocean_science_utilities.filecache.remote_resources import RemoteResource, _RemoteResourceUriNotFound
        self.dir = tempfile.mkdtemp(prefix="fcw-", dir=root)
        self.remote = {}          # download uri -> bytes
        for k, n in (sizes or {}).items():
            self.remote[SCHEME + k] = body(k, n)
        self.faults = {}          # download uri -> fault kind for its next download
        self.invalid = set()      # download uris whose cached copy the validator rejects
        self.validator_raises = False
        self.log = []             # download calls (uris)
        self.max_bytes, self.parallel, self.allow_missing = max_bytes, parallel, allow_missing
        self.gen = {}             # file name -> generation (operation index of last use)
        self.model = {}           # file name -> expected bytes
        self.opno = 0
        self.cache = None
        self.sparse = False
        world = self

        class MemResource(RemoteResource):
            URI_PREFIX = SCHEME

            def download(self):
                def fetch(uri, filepath):
                    world.log.append(uri)
                    kind = world.faults.get(uri, "ok")
                    if kind == "notfound" or uri not in world.remote:
                        raise _RemoteResourceUriNotFound(uri)
                    if kind == "raise_before":
                        raise InjectedIOError("injected before write: " + uri)
                    data = world.remote[uri]
                    if kind == "raise_partial":
                        with open(filepath, "wb") as f:
                            f.write(data[: max(1, len(data) // 3)])
                        raise InjectedIOError("injected after partial write: " + uri)
                    world.write(filepath, data)
                    return True
                return fetch
        self.resource = MemResource()
        for n, data in FOREIGN.items():
            with open(os.path.join(self.dir, n), "wb") as f:
                f.write(data)
            os.utime(os.path.join(self.dir, n), (500, 500))

    def __deepcopy__(self, memo):
        return self

    def write(self, filepath, data):
        with open(filepath, "wb") as f:
            f.write(data)

    # ------------------------------------------------------------------ directive functions
    def _validate(self, filepath):
        if self.validator_raises:
            raise IOError("validator cannot read")
        with open(filepath, "rb") as f:
            data = f.read()
        for uri in self.invalid:
            if os.path.basename(filepath) in self._names_of_download_uri(uri):
                return False
        return data is not None

    def _names_of_download_uri(self, uri):
        return {n for n, k in self.keys.items() if k.split("<<")[0] == uri}

    def _postprocess(self, filepath):
        with open(filepath, "rb") as f:
            data = f.read()
        for uri, kind in self.faults.items():
            if kind == "pp_raise" and data == self.remote.get(uri):
                raise PostProcessError("injected in post-processing: " + uri)
        with open(filepath, "wb") as f:
            f.write(postprocessed(data))

    # ------------------------------------------------------------------ operations on the real classes
    def open(self, evict_on_startup=False):
        """(re)open the cache on the directory; raises what the constructor raises"""
        from ocean_science_utilities.filecache.cache_object import FileCache
        self.keys = getattr(self, "keys", {})     # file name -> key uri (for messages and validation)
        with warnings.catch_warnings():
            warnings.simplefilter("ignore")
            c = FileCache(self.dir, size_GB=self.max_bytes / 1e9, do_cache_eviction_on_startup=evict_on_startup,
                          resources=[self.resource], parallel=self.parallel, allow_for_missing_files=self.allow_missing)
        c.disable_progress_bar = True
        c.set_directive_function("validate", "chk", self._validate)
        c.set_directive_function("postprocess", "pp", self._postprocess)
        self.cache = c
        return c

    def age(self):
        """give every cache file a distinct past timestamp that preserves the recorded recency order"""
        self.assigned = {}
        names = sorted(self.pattern_files(), key=lambda n: (self.gen.get(n, 0), n))
        for i, n in enumerate(names):
            t = 10_000 + 1000 * self.gen.get(n, 0) + i
            os.utime(os.path.join(self.dir, n), (t, t))
            self.assigned[n] = t

    def observe_use(self):
        """files whose timestamps changed since age(): used in this operation"""
        for n in self.pattern_files():
            st = os.stat(os.path.join(self.dir, n))
            if max(st.st_atime, st.st_mtime) != self.assigned.get(n):
                self.gen[n] = self.opno

    def pattern_files(self):
        return sorted(n for n in os.listdir(self.dir) if n.startswith(PREFIX) and n.endswith(POSTFIX))

    def read(self, name):
        with open(os.path.join(self.dir, name), "rb") as f:
            return f.read()

    def total(self):
        return sum(os.path.getsize(os.path.join(self.dir, n)) for n in self.pattern_files())

    def close(self):
        shutil.rmtree(self.dir, ignore_errors=True)

    # ------------------------------------------------------------------ invariant (statement level)
    def invariant(self, where):
        """list of (clause, detail) violated by the current state of cache + directory"""
        bad = []
        c = self.cache
        files = self.pattern_files()
        ent = dict(c._entries)
        if sorted(ent) != files:
            bad.append(("entries_eq_files", f"{where}: entries {sorted(k[10:16] for k in ent)} != cache files {[f[10:16] for f in files]}"))
        for k, p in ent.items():
            if p != os.path.join(c.path, k):
                bad.append(("entry_path", f"{where}: entry {k} -> {p}"))
            if not os.path.exists(p):
                bad.append(("entry_exists", f"{where}: entry {self.keys.get(k, k)} has no file"))
        for n in files:
            exp = self.model.get(n)
            if exp is None:
                bad.append(("unexpected_file", f"{where}: cache file for {self.keys.get(n, n)} should not exist"))
            elif self.read(n) != exp:
                got = self.read(n)
                bad.append(("file_content", f"{where}: cache file for {self.keys.get(n, n)} holds {len(got)} bytes {got[:12]!r}, expected {len(exp)} bytes {exp[:12]!r}"))
        for n, data in FOREIGN.items():
            p = os.path.join(self.dir, n)
            if not os.path.exists(p) or open(p, "rb").read() != data or os.stat(p).st_mtime != 500:
                bad.append(("foreign_untouched", f"{where}: foreign file {n} was modified or removed"))
        stray = [n for n in os.listdir(self.dir) if n not in files and n not in FOREIGN and n != CONFIG]
        if stray:
            bad.append(("stray_files", f"{where}: unexpected files {stray}"))
        return bad

    # ------------------------------------------------------------------ checked operations
    def get(self, raws):
        """cache[raws] on the real class, checked against the statement.  Returns (outcome, failures)."""
        self.opno += 1
        c = self.cache
        bad = []
        self.age()
        parsed = [spec_parse(r) for r in raws]
        before_files = set(self.pattern_files())
        before_model = dict(self.model)
        before_gen = dict(self.gen)
        old_max = c.config.max_size_bytes
        log0 = len(self.log)
        # expectation from the statement
        exp_result, exp_log, will_raise = [], [], False
        new_model = dict(self.model)
        rejected_names, downloads = set(), {}
        for key, dirs, dl in parsed:
            n = name_of(key)
            self.keys[n] = key
            rejected = n in self.model and "validate" in dirs and (dl in self.invalid or self.validator_raises)
            if n in self.model and not rejected:
                exp_result.append(n)
                continue
            if rejected:
                rejected_names.add(n)
                new_model.pop(n, None)
            exp_log.append(dl)
            kind = self.faults.get(dl, "ok")
            if dl not in self.remote:
                kind = "notfound"
            if kind == "pp_raise" and "postprocess" not in dirs:
                kind = "ok"
            if kind == "ok":
                data = self.remote[dl]
                new_model[n] = downloads[n] = postprocessed(data) if "postprocess" in dirs else data
                exp_result.append(n)
            elif kind == "notfound" and c.config.allow_for_missing_files:
                pass
            else:
                will_raise = True
        raised = None
        result = None
        try:
            with warnings.catch_warnings():
                warnings.simplefilter("ignore")
                result = c[list(raws)]
        except Exception as e:     # noqa
            raised = e
        self.observe_use()
        dlog = self.log[log0:]
        if raised is not None:
            if not will_raise:
                bad.append(("unexpected_exception", f"request {raws} raised {type(raised).__name__}: {raised}"))
            # exceptional exit: what was cached before and not rejected must be intact; a download of this
            # request is either registered with the right bytes or absent; nothing else may be there
            files = self.pattern_files()
            m = {}
            for n, d in before_model.items():
                if n not in rejected_names:
                    m[n] = d
                    if n not in files:
                        bad.append(("cached_lost_on_failure", f"request {raws} failed and {self.keys.get(n, n)} (cached before) disappeared"))
            for n in files:
                if n not in m and n in downloads:
                    m[n] = downloads[n]
            self.model = m
            bad += self.invariant(f"after failed request {raws}")
            self._resync()
            return ("raised", type(raised).__name__), bad
        if will_raise:
            bad.append(("missing_exception", f"request {raws} should have raised (fault injected, missing files not tolerated)"))
        # normal exit
        self.model = new_model
        exp_paths = [os.path.join(self.dir, n) for n in exp_result]
        if list(result) != exp_paths:
            bad.append(("returned_paths", f"request {raws} returned {[os.path.basename(p)[10:16] for p in result]}, expected {[n[10:16] for n in exp_result]}"))
        for p in result:
            n = os.path.basename(p)
            if not os.path.exists(p):
                bad.append(("returned_exists", f"request {raws}: returned path for {self.keys.get(n, n)} does not exist"
                            + (" (it was a hit: evicted by its own request)" if n in before_files else "")))
            elif n in self.model and open(p, "rb").read() != self.model[n]:
                bad.append(("returned_content", f"request {raws}: returned file for {self.keys.get(n, n)} holds wrong bytes"))
        if sorted(dlog) != sorted(exp_log) or (not c.config.parallel and dlog != exp_log):
            bad.append(("download_log", f"request {raws}: resource contacted for {dlog}, expected {exp_log}"))
        # size bound / enlargement
        new_max = c.config.max_size_bytes
        req_total = sum(len(self.model[n]) for n in exp_result)
        if new_max != old_max and not (req_total > old_max and new_max >= req_total):
            bad.append(("enlarge", f"request {raws}: limit changed {old_max} -> {new_max} although the request needs {req_total}"))
        # eviction: compute what the statement allows
        files = set(self.pattern_files())
        candidates = set(self.model)
        evicted = candidates - files
        for n in evicted:
            self.model.pop(n)
        if self.total() > new_max:
            bad.append(("size_bound", f"request {raws}: cache files total {self.total()} > limit {new_max}"))
        for n in evicted:
            if n in exp_result:
                continue    # reported as returned_exists
            for m in files:
                if m not in exp_result and before_gen.get(m, 0) < before_gen.get(n, 0):
                    bad.append(("lru_order", f"request {raws}: evicted {self.keys.get(n, n)} (gen {before_gen.get(n, 0)}) but kept older {self.keys.get(m, m)} (gen {before_gen.get(m, 0)})"))
        if evicted and not any(n in exp_result for n in evicted):
            sizes = {n: len(before_model.get(n) or new_model.get(n) or b"") for n in evicted}
            top = max(before_gen.get(n, 0) for n in evicted)
            if not any(self.total() + sizes[n] > new_max for n in evicted if before_gen.get(n, 0) == top):
                bad.append(("evict_minimal", f"request {raws}: evicted more than needed"))
        for n in exp_result:
            if n in files and self.gen.get(n) != self.opno:
                bad.append(("hit_not_refreshed", f"request {raws}: {self.keys.get(n, n)} was served but not marked as recently used"))
        bad += self.invariant(f"after request {raws}")
        self._resync()
        return ("ok", [os.path.basename(p) for p in result]), bad

    def _resync(self):
        """a cached file that vanished is no longer expected (so that one defect is not reported forever); files that
        should not exist stay unexpected"""
        files = self.pattern_files()
        for n in list(self.model):
            if n not in files:
                self.model.pop(n)

    def remove(self, raw):
        self.opno += 1
        self.age()
        key, _, _ = spec_parse(raw)
        n = name_of(key)
        bad = []
        try:
            self.cache.remove(raw)
        except ValueError:
            if n in self.model:
                bad.append(("remove_raises", f"remove({raw}) raised although it is cached"))
        self.model.pop(n, None)
        self.observe_use()
        bad += self.invariant(f"after remove({raw})")
        self._resync()
        return ("ok", None), bad

    def purge(self):
        self.opno += 1
        self.age()
        self.cache.purge()
        self.model = {}
        bad = self.invariant("after purge")
        self._resync()
        return ("ok", None), bad

    def reopen(self):
        """a new process opens the same directory (also: what a crash is followed by)"""
        self.opno += 1
        self.age()
        bad = []
        total, limit = self.total(), None
        try:
            with open(os.path.join(self.dir, CONFIG)) as f:
                limit = int(json.load(f)["size_gb"] * 1e9)
        except Exception:
            pass
        try:
            self.open()
        except ValueError as e:
            if limit is not None and total <= limit:
                bad.append(("reopen_raises", f"reopen raised {e} with {total} <= {limit}"))
            self.open(evict_on_startup=True)
            for n in list(self.model):
                if n not in self.pattern_files():
                    self.model.pop(n)
        if limit is not None and self.cache.config.max_size_bytes != limit:
            bad.append(("config_persisted", f"reopen: limit {self.cache.config.max_size_bytes} != persisted {limit}"))
        bad += self.invariant("after reopen")
        self._resync()
        return ("ok", None), bad

    def touch(self, raw):
        """external use of a cached file: makes it the most recently used"""
        self.opno += 1
        key, _, _ = spec_parse(raw)
        n = name_of(key)
        if n in self.model:
            self.gen[n] = self.opno
        return ("ok", None), []


def try_open(w):
    """first construction; F2 shows here"""
    try:
        w.open()
        return []
    except Exception as e:     # noqa
        return [("construct", f"FileCache(path, ...) raised {type(e).__name__}: {e}")]
