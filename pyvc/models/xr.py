"""Model of xarray.DataArray / Dataset as used by wavespectra/spectrum.py (DESIGN §2.3, §2.6).

A DataArray is Obj('DataArray') with fields
  dims   tuple of dimension names
  arr    Arr of reals / ints / bools (shape follows dims)
  nan    None, or Arr of bools: True where the value is missing (NaN).  Arithmetic propagates it,
         comparisons with a missing value are False, fillna / skipna sums clear it.
  coords dict dim -> Arr (1-D coordinate values)
  masks  dict dim -> Arr of bools: a *lazy* boolean selection `isel(dim=mask)` along that dim.
         Compaction is never materialised; operations that depend on neighbourhood (integrate)
         emit the obligation that the mask is contiguous and then work on the uncompacted grid.
Assumed library contracts (all of xarray's semantics that the repository relies on):
  * binary operations align by dimension NAME and broadcast (result dims: left dims, then new right dims);
  * numpy arrays combined with a DataArray broadcast positionally from the right;
  * sum(dim) skips NaN by default; integrate(coord) is the trapezoid rule in the coordinate values;
  * argmax(dim) is the first index of the maximum, NaN skipped (all-NaN raises ValueError);
  * where(cond, other) keeps values where cond holds, `other` (default NaN) elsewhere;
  * isel with an integer DataArray indexes pointwise over the shared dims.
Leading (space/time) dimensions are whatever the contract builds; nothing here depends on their number.
"""
from fractions import Fraction
import z3
from .. import terms as T
from .. import lib
from ..terms import Unsupported, is_sym
from ..values import Obj, Arr, CArr, LibFunc, Ref, ExcVal, materialise, Opaque
from ..lib import TypeTag, REG

NANV = T.NAN     # the literal np.nan


def _is_nanlit(d):
    return isinstance(d, T.XR) and d.nan is True


def is_xa(o):
    return isinstance(o, Obj) and o.cls == "DataArray"


def mk_xa(st, dims, arr, nan=None, coords=None, masks=None, name=None):
    return st.alloc(Obj("DataArray", {"dims": tuple(dims), "arr": arr, "nan": nan, "coords": dict(coords or {}),
                                      "masks": dict(masks or {}), "name": name}), "DataArray")


def _shape_of(xa):
    return xa.fields["arr"].shape


def _idx_for(dims_out, idx, dims_in, arr):
    """index tuple into an operand with dims_in, given an index over dims_out"""
    out = []
    for d, n in zip(dims_in, arr.shape):
        k = dims_out.index(d)
        out.append(0 if (isinstance(n, int) and n == 1 and False) else idx[k])
    return tuple(out)


def _as_operand(st, v):
    """-> ('xa', Obj) | ('np', Arr) | ('sc', scalar)"""
    d = st.deref(v)
    if is_xa(d):
        return ("xa", d)
    if isinstance(d, Arr):
        return ("np", d)
    if _is_nanlit(d):
        return ("nanlit", None)
    return ("sc", d)


def xr_apply(st, fn, operands, sort="real", nanfn=None, bool_result=False):
    """elementwise application aligned by dimension name; fn over values, NaN propagates (or nanfn decides)"""
    ops = [_as_operand(st, o) for o in operands]
    dims = []
    sizes = {}
    coords, masks = {}, {}
    for kind, o in ops:
        if kind == "xa":
            for d, n in zip(o.fields["dims"], _shape_of(o)):
                if d not in dims:
                    dims.append(d)
                    sizes[d] = n
            coords.update(o.fields["coords"])
            for d, m in o.fields["masks"].items():
                if d in masks and masks[d] is not m:
                    raise Unsupported("operands selected with different masks along the same dimension")
                masks[d] = m
    nd = len(dims)
    # a masked operand combined with an unmasked one along the same dim is a shape error in xarray
    for kind, o in ops:
        if kind == "xa":
            for d in o.fields["dims"]:
                if d in masks and d not in o.fields["masks"]:
                    raise Unsupported(f"masked and unmasked operands along {d}")

    def split(v, n):
        # a cell that carries its own missing flag (terms.XR: numpy arrays with possibly-NaN cells): value and flag are separated,
        # so that the DataArray's `nan` field is the only place where missing values live
        if isinstance(v, T.XR):
            return v.v, T.lor(n, v.nan)
        return v, n

    def pick(kind, o, idx):
        if kind == "xa":
            a = o.fields["arr"]
            sub = tuple(idx[dims.index(d)] for d in o.fields["dims"])
            v = a.get(sub)
            n = o.fields["nan"].get(sub) if o.fields["nan"] is not None else False
            return split(v, n)
        if kind == "np":
            off = nd - o.ndim
            if off < 0:
                raise Unsupported("numpy operand with more dimensions than the DataArray")
            sub = tuple(0 if (isinstance(s, int) and s == 1) else i for i, s in zip(idx[off:], o.shape))
            nm = getattr(o, "nanmask", None)
            return split(o.get(sub), (nm.get(sub) if nm is not None else False))
        if kind == "nanlit":
            return Fraction(0), True
        if isinstance(o, T.XR):
            return o.v, o.nan
        return o, False

    def val(idx):
        vs = [pick(k, o, idx)[0] for k, o in ops]
        return fn(*vs)

    any_nan = any((k == "xa" and o.fields["nan"] is not None) or k == "nanlit" or isinstance(o, T.XR)
                  or (k == "np" and (getattr(o, "nanmask", None) is not None or lib._may_be_nan(o))) for k, o in ops)

    def nan(idx):
        ns = [pick(k, o, idx)[1] for k, o in ops]
        if nanfn is not None:
            return nanfn(ns, [pick(k, o, idx)[0] for k, o in ops])
        return T.lor(*ns)
    shape = tuple(sizes[d] for d in dims)
    if bool_result:
        # comparisons: False where any side is missing
        arr = Arr(shape, lambda idx: T.land(val(idx), T.lnot(nan(idx))) if any_nan else val(idx), (), "bool")
        return mk_xa(st, dims, arr, None, coords, masks)
    arr = Arr(shape, val, (), sort)
    nanarr = Arr(shape, nan, (), "bool") if (any_nan or nanfn is not None) else None
    return mk_xa(st, dims, arr, nanarr, coords, masks)


_BIN = {"Add": T.add, "Sub": T.sub, "Mult": T.mul, "Div": T.div, "Pow": T.power, "Mod": T.mod, "FloorDiv": T.floordiv}
_CMP = {"<": "<", "<=": "<=", ">": ">", ">=": ">=", "==": "==", "!=": "!="}
_UF = {"cos", "sin", "sqrt", "exp", "log", "tan", "tanh", "sinh", "cosh", "arctan", "arccos", "arcsin"}


def _contig_obligation(interp, st, mask, dim):
    """isel(dim=mask) followed by integrate: neighbours in the selection are grid neighbours only if the
    mask is an interval of indices"""
    n = mask.shape[0]
    i, j, k = T.Fresh.int("ci"), T.Fresh.int("cj"), T.Fresh.int("ck")
    goal = z3.ForAll([i, j, k], z3.Implies(z3.And(0 <= i, i < j, j < k, k < T.to_z3(n), T.to_z3(mask.get((i,))), T.to_z3(mask.get((k,)))),
                                           T.to_z3(mask.get((j,)))))
    if interp.ctx is not None:
        interp.ctx.oblige(st, f"lib.integrate.mask_contiguous[{dim}]", goal)


def xa_integrate(interp, st, xa, coord):
    dims = xa.fields["dims"]
    if coord not in dims:
        raise Unsupported(f"integrate over missing coordinate {coord}")
    ax = dims.index(coord)
    a, nanarr = xa.fields["arr"], xa.fields["nan"]
    x = xa.fields["coords"].get(coord)
    if x is None:
        raise Unsupported("integrate without coordinate values")
    n = a.shape[ax]
    mask = xa.fields["masks"].get(coord)
    if mask is not None:
        _contig_obligation(interp, st, mask, coord)
    odims = dims[:ax] + dims[ax + 1:]
    oshape = a.shape[:ax] + a.shape[ax + 1:]

    def full(idx, i):
        return tuple(idx[:ax]) + (i,) + tuple(idx[ax:])

    def val(idx):
        bv = T.Fresh.int("t")
        y0, y1 = a.get(full(idx, bv)), a.get(full(idx, bv + 1))
        term = T.mul(T.div(T.add(y0, y1), 2), T.sub(x.get((bv + 1,)), x.get((bv,))))
        if mask is not None:
            term = T.ite(T.land(mask.get((bv,)), mask.get((bv + 1,))), term, 0)
        return T.make_sum(0, T.sub(n, 1), bv, T.to_real(T.to_z3(term)))
    nan_out = None
    if nanarr is not None:
        def nanv(idx):
            q = T.Fresh.int("q")
            used = z3.And(q >= 0, q < T.to_z3(n))
            if mask is not None:
                used = z3.And(used, T.to_z3(mask.get((q,))))
            return z3.Exists([q], z3.And(used, T.to_z3(nanarr.get(full(idx, q)))))
        nan_out = Arr(oshape, nanv, (), "bool")
    coords = {d: c for d, c in xa.fields["coords"].items() if d != coord}
    masks = {d: m for d, m in xa.fields["masks"].items() if d != coord}
    return mk_xa(st, odims, Arr(oshape, val, (), "real"), nan_out, coords, masks)


def xa_sum(interp, st, xa, dim, skipna=True):
    dims = xa.fields["dims"]
    if isinstance(dim, (list, tuple)):
        r = xa
        for d in dim:
            r = st.deref(xa_sum(interp, st, r, d, skipna))
        return r
    if dim not in dims:
        raise Unsupported(f"sum over missing dimension {dim}")
    ax = dims.index(dim)
    a, nanarr = xa.fields["arr"], xa.fields["nan"]
    n = a.shape[ax]
    mask = xa.fields["masks"].get(dim)
    odims = dims[:ax] + dims[ax + 1:]
    oshape = a.shape[:ax] + a.shape[ax + 1:]

    def full(idx, i):
        return tuple(idx[:ax]) + (i,) + tuple(idx[ax:])

    def val(idx):
        bv = T.Fresh.int("s")
        v = a.get(full(idx, bv))
        if nanarr is not None and skipna:
            v = T.ite(nanarr.get(full(idx, bv)), 0, v)
        if mask is not None:
            v = T.ite(mask.get((bv,)), v, 0)
        return T.make_sum(0, n, bv, T.to_real(T.to_z3(v)))
    nan_out = None
    if nanarr is not None and not skipna:
        def nanv(idx):
            q = T.Fresh.int("q")
            return z3.Exists([q], z3.And(q >= 0, q < T.to_z3(n), T.to_z3(nanarr.get(full(idx, q)))))
        nan_out = Arr(oshape, nanv, (), "bool")
    coords = {d: c for d, c in xa.fields["coords"].items() if d != dim}
    masks = {d: m for d, m in xa.fields["masks"].items() if d != dim}
    return mk_xa(st, odims, Arr(oshape, val, (), "real"), nan_out, coords, masks)


def xa_mean(interp, st, xa, dim, skipna=True):
    """mean(dim): the sum of the values present divided by their number; NaN where none is present (also for an empty
    dimension).  With skipna=False a missing value makes the mean missing."""
    dims = xa.fields["dims"]
    if dim not in dims:
        raise Unsupported(f"mean over missing dimension {dim}")
    if xa.fields["masks"].get(dim) is not None:
        raise Unsupported("mean over a lazily masked dimension")
    ax = dims.index(dim)
    a, nanarr = xa.fields["arr"], xa.fields["nan"]
    n = a.shape[ax]
    total = st.deref(xa_sum(interp, st, xa, dim, skipna))
    tarr, tnan = total.fields["arr"], total.fields["nan"]
    oshape = tarr.shape

    def full(idx, i):
        return tuple(idx[:ax]) + (i,) + tuple(idx[ax:])

    def count(idx):
        if nanarr is None or not skipna:
            return n
        bv = T.Fresh.int("c")
        return T.make_sum(0, n, bv, T.to_real(T.to_z3(T.ite(nanarr.get(full(idx, bv)), 0, 1))))

    def val(idx):
        return T.div(tarr.get(idx), count(idx))

    def nanv(idx):
        none = T.cmp("<=", count(idx), 0)
        return T.lor(none, tnan.get(idx)) if tnan is not None else none
    nan_out = Arr(oshape, nanv, (), "bool")
    if nanarr is None and interp is not None and interp.valid(st, T.to_z3(T.cmp(">", n, 0)), timeout=2000):
        nan_out = None      # no missing input and a non-empty dimension: the mean is present
    return mk_xa(st, total.fields["dims"], Arr(oshape, val, (), "real"), nan_out, total.fields["coords"], total.fields["masks"])


def xa_positional(interp, st, xa, idx):
    """xa[i0, i1, ...] / xa[..., lo:hi]: positional (numpy basic) indexing: integers drop the dimension, slices keep a
    contiguous part of it (coordinates sliced alike).  Slice bounds must lie in the dimension (obligation; numpy would clamp)."""
    from ..interp import Slice
    items = [st.deref(i) if isinstance(i, Ref) else i for i in idx]
    dims = xa.fields["dims"]
    n_real = sum(1 for it in items if it is not Ellipsis)
    if sum(1 for it in items if it is Ellipsis) > 1 or n_real > len(dims):
        raise Unsupported("DataArray index with too many items")
    if any(it is Ellipsis for it in items):
        k = items.index(Ellipsis)
        items = items[:k] + [Slice(None, None, None)] * (len(dims) - n_real) + items[k + 1:]
    else:
        items = items + [Slice(None, None, None)] * (len(dims) - n_real)
    cur = xa
    for dim, it in zip(dims, items):
        if isinstance(it, Slice):
            if it.lo is None and it.hi is None and it.step is None:
                continue
            if it.step is not None and it.step != 1:
                raise Unsupported("DataArray slice with a step")
            cur = st.deref(_xa_slice(interp, st, cur, dim, it.lo, it.hi))
        elif T.is_num(it) and not isinstance(it, Fraction):
            cur = xa_isel(interp, st, cur, {dim: it})
        else:
            raise Unsupported(f"DataArray positional index of type {type(it).__name__}")
    return cur


def _xa_slice(interp, st, xa, dim, lo, hi):
    dims = xa.fields["dims"]
    ax = dims.index(dim)
    a, nanarr = xa.fields["arr"], xa.fields["nan"]
    if xa.fields["masks"].get(dim) is not None:
        raise Unsupported("slice of a lazily masked dimension")
    n = a.shape[ax]
    lo = 0 if lo is None else lo
    hi = n if hi is None else hi
    if (isinstance(lo, int) and lo < 0) or (isinstance(hi, int) and hi < 0):
        raise Unsupported("negative slice bound on a DataArray")
    if interp is not None and interp.ctx is not None and not (isinstance(lo, int) and lo == 0 and hi is n):
        interp.ctx.oblige(st, "slice.in_range", T.land(T.cmp(">=", lo, 0), T.cmp("<=", lo, hi), T.cmp("<=", hi, n)))
    length = T.sub(hi, lo)
    c = interp.concrete_int(st, length) if interp is not None else None
    if c is not None:
        length = c
    oshape = a.shape[:ax] + (length,) + a.shape[ax + 1:]

    def mkget(src):
        return lambda idx: src.get(tuple(idx[:ax]) + (T.add(lo, idx[ax]),) + tuple(idx[ax + 1:]))
    coords = dict(xa.fields["coords"])
    if dim in coords:
        cd = coords[dim]
        coords[dim] = Arr((length,), lambda idx, cd=cd: cd.get((T.add(lo, idx[0]),)), (), cd.sort)
    r = mk_xa(st, dims, Arr(oshape, mkget(a), (), a.sort), Arr(oshape, mkget(nanarr), (), "bool") if nanarr is not None else None,
              coords, xa.fields["masks"], xa.fields["name"])
    if xa.fields.get("scoords"):
        st.deref(r).fields["scoords"] = dict(xa.fields["scoords"])
    return r


def xa_argmax(interp, st, xa, dim, skipna=True):
    dims = xa.fields["dims"]
    ax = dims.index(dim)
    a, nanarr = xa.fields["arr"], xa.fields["nan"]
    if xa.fields["masks"].get(dim) is not None:
        raise Unsupported("argmax over a masked dimension")
    n = a.shape[ax]
    odims = dims[:ax] + dims[ax + 1:]
    oshape = a.shape[:ax] + a.shape[ax + 1:]

    def full(idx, i):
        return tuple(idx[:ax]) + (i,) + tuple(idx[ax:])

    def val(idx):
        bv = T.Fresh.int("m")
        v = T.to_real(T.to_z3(a.get(full(idx, bv))))
        valid = T.lnot(nanarr.get(full(idx, bv))) if nanarr is not None else True
        am = T.make_argmax(0, n, bv, v, T.to_z3(valid) if not isinstance(valid, bool) else z3.BoolVal(valid))
        if nanarr is not None and not skipna:
            # numpy semantics: NaN is the maximum, the first NaN wins
            bq = T.Fresh.int("n")
            first_nan = T.make_first(0, n, bq, T.to_z3(nanarr.get(full(idx, bq))))
            return T.ite(T.cmp("<", first_nan, n), first_nan, am)
        return am
    # all-NaN slices raise in xarray; the model requires at least one valid value per slice
    if nanarr is not None and skipna and interp.ctx is not None:
        ix = [T.Fresh.int("p") for _ in oshape]
        q = T.Fresh.int("q")
        rng = T.land(*[z3.And(i >= 0, i < T.to_z3(s)) for i, s in zip(ix, oshape)])
        some = z3.Exists([q], z3.And(q >= 0, q < T.to_z3(n), z3.Not(T.to_z3(nanarr.get(full(ix, q))))))
        cond = z3.ForAll(ix, z3.Implies(rng, some)) if ix else some
        if not interp.truth(st, cond):
            from ..interp import PyRaise
            raise PyRaise(ExcVal("ValueError", ("All-NaN slice encountered",)))
    coords = {d: c for d, c in xa.fields["coords"].items() if d != dim}
    return mk_xa(st, odims, Arr(oshape, val, (), "int"), None, coords, {})


def xa_isel(interp, st, xa, indexers):
    cur = xa
    for dim, ind in indexers.items():
        ind = st.deref(ind)
        dims = cur.fields["dims"]
        if dim not in dims:
            raise Unsupported(f"isel over missing dimension {dim}")
        ax = dims.index(dim)
        a, nanarr = cur.fields["arr"], cur.fields["nan"]
        if is_xa(ind) and ind.fields["arr"].sort == "bool":
            ind = ind.fields["arr"]
        if isinstance(ind, Arr) and ind.sort == "bool":
            if ind.ndim != 1:
                raise Unsupported("n-d boolean indexer")
            masks = dict(cur.fields["masks"])
            if dim in masks:
                raise Unsupported("second boolean selection along the same dimension")
            masks[dim] = ind
            cur = st.deref(mk_xa(st, dims, a, nanarr, cur.fields["coords"], masks, cur.fields["name"]))
            continue
        if is_xa(ind):
            # pointwise (vectorised) integer indexing: out[p...] = a[p..., ind[p...]]
            idims = ind.fields["dims"]
            iarr = ind.fields["arr"]
            odims = tuple(d for d in dims if d != dim)
            for d in idims:
                if d not in odims:
                    odims = odims + (d,)
            sizes = {}
            for d, n in zip(dims, a.shape):
                sizes[d] = n
            for d, n in zip(idims, iarr.shape):
                sizes.setdefault(d, n)
            oshape = tuple(sizes[d] for d in odims)

            def mkget(src, dims=dims, odims=odims, idims=idims, iarr=iarr, dim=dim):
                def g(idx):
                    k = iarr.get(tuple(idx[odims.index(d)] for d in idims))
                    return src.get(tuple(k if d == dim else idx[odims.index(d)] for d in dims))
                return g
            coords = {d: c for d, c in cur.fields["coords"].items() if d != dim}
            cur = st.deref(mk_xa(st, odims, Arr(oshape, mkget(a), (), a.sort),
                                 Arr(oshape, mkget(nanarr), (), "bool") if nanarr is not None else None, coords,
                                 {d: m for d, m in cur.fields["masks"].items() if d != dim}))
            continue
        if T.is_num(ind):
            odims = dims[:ax] + dims[ax + 1:]
            oshape = a.shape[:ax] + a.shape[ax + 1:]
            k = T.add(a.shape[ax], ind) if isinstance(ind, int) and ind < 0 else ind

            def mkget(src, ax=ax, k=k):
                return lambda idx: src.get(tuple(idx[:ax]) + (k,) + tuple(idx[ax:]))
            coords = {d: c for d, c in cur.fields["coords"].items() if d != dim}
            sc = dict(cur.fields.get("scoords") or {})
            if dim in cur.fields["coords"]:
                # xarray keeps the coordinate value of an integer-indexed dimension as a scalar (0-d) coordinate
                sc[dim] = CArr((), {(): cur.fields["coords"][dim].get((k,))}, cur.fields["coords"][dim].sort)
            cur = st.deref(mk_xa(st, odims, Arr(oshape, mkget(a), (), a.sort),
                                 Arr(oshape, mkget(nanarr), (), "bool") if nanarr is not None else None, coords,
                                 {d: m for d, m in cur.fields["masks"].items() if d != dim}))
            if sc:
                cur.fields["scoords"] = sc
            continue
        from ..interp import Slice as _Slice
        if isinstance(ind, _Slice):
            if ind.step is not None and ind.step != 1:
                raise Unsupported("isel slice with a step")
            if ind.lo is None and ind.hi is None:
                continue
            cur = st.deref(_xa_slice(interp, st, cur, dim, ind.lo, ind.hi))
            continue
        raise Unsupported(f"isel indexer {type(ind).__name__}")
    return cur


def xa_where(interp, st, xa, cond, other=NANV):
    def fn(v, c, o):
        return T.ite(c, v, o)

    def nanfn(ns, vs):
        # ns: nan flags of (value, cond, other); cond missing counts as False
        c = T.land(vs[1], T.lnot(ns[1]))
        return T.ite(c, ns[0], ns[2])
    othr = st.deref(other)
    return xr_apply(st, fn, [xa, cond, othr], nanfn=nanfn)


class XrPlugin:
    # ---- attribute access
    def obj_getattr(self, interp, st, ref, o, name):
        if o.cls == "Dataset":
            return self._ds_getattr(interp, st, ref, o, name)
        if o.cls != "DataArray":
            return NotImplemented
        f = o.fields
        if name == "dims":
            return f["dims"]
        if name == "shape":
            for d in f["masks"]:
                raise Unsupported("shape of a lazily masked DataArray")
            return tuple(f["arr"].shape)
        if name == "values":
            if f["masks"]:
                raise Unsupported(".values of a lazily masked DataArray")
            a = f["arr"]
            r = Arr(a.shape, a.base, a.ups, a.sort) if not isinstance(a, CArr) else CArr(a.shape, a.data, a.sort)
            if f["nan"] is not None:
                r.nanmask = f["nan"]
            r.is_view = True       # numpy view of the DataArray's buffer: a store through it would mutate the DataArray
            return st.alloc(r, "values")
        if name == "name":
            return f["name"]
        if name == "coords":
            return st.alloc(dict(f["coords"]), "coords")
        if name == "ndim":
            return len(f["dims"])
        if name in f["coords"] and name not in ("dims",):
            return mk_xa(st, (name,), f["coords"][name], None, {name: f["coords"][name]})

        def method(fn):
            return LibFunc("DataArray." + name, lib._wrap("xarray.DataArray." + name, fn))
        if name == "fillna":
            def fillna(i, s, a, k):
                v = s.deref(a[0])
                if f["nan"] is None:
                    return ref
                arr, nn = f["arr"], f["nan"]
                return mk_xa(s, f["dims"], Arr(arr.shape, lambda ix: T.ite(nn.get(ix), v, arr.get(ix)), (), arr.sort), None,
                             f["coords"], f["masks"], f["name"])
            return method(fillna)
        if name in ("isnull", "notnull"):
            def isnull(i, s, a, k):
                arr, nn = f["arr"], f["nan"]
                if nn is None:
                    r = Arr(arr.shape, lambda ix: name == "notnull", (), "bool")
                elif name == "isnull":
                    r = nn
                else:
                    r = Arr(arr.shape, lambda ix: T.lnot(nn.get(ix)), (), "bool")
                return mk_xa(s, f["dims"], r, None, f["coords"], f["masks"])
            return method(isnull)
        if name == "where":
            def where(i, s, a, k):
                if k.get("drop"):
                    c = s.deref(a[0])
                    if is_xa(c) and len(c.fields["dims"]) == 1 and c.fields["arr"].sort == "bool":
                        return s.alloc(xa_isel(i, s, o, {c.fields["dims"][0]: c.fields["arr"]}), "DataArray")
                    raise Unsupported("where(drop=True) with a condition that is not a 1-d boolean DataArray")
                return xa_where(i, s, o, a[0], a[1] if len(a) > 1 else k.get("other", NANV))
            return method(where)
        if name == "isel":
            def isel(i, s, a, k):
                ind = dict(s.deref(a[0])) if a else {}
                ind.update(k)
                return s.alloc(xa_isel(i, s, o, ind), "DataArray") if True else None
            return method(isel)
        if name == "integrate":
            return method(lambda i, s, a, k: xa_integrate(i, s, o, s.deref(k["coord"]) if "coord" in k else s.deref(a[0])))
        if name == "sum":
            def sm(i, s, a, k):
                dim = s.deref(k["dim"]) if "dim" in k else (s.deref(a[0]) if a else None)
                if dim is None:
                    raise Unsupported("sum over all dimensions")
                if isinstance(dim, Ref):
                    dim = s.deref(dim)
                sk = k.get("skipna", True)
                return xa_sum(i, s, o, dim, True if sk is None else bool(sk))
            return method(sm)
        if name == "mean":
            def mean(i, s, a, k):
                dim = s.deref(k["dim"]) if "dim" in k else (s.deref(a[0]) if a else None)
                if not isinstance(dim, str):
                    raise Unsupported("mean over all / several dimensions")
                sk = s.deref(k.get("skipna", True))
                return xa_mean(i, s, o, dim, True if sk is None else bool(sk))
            return method(mean)
        if name == "std":
            def std(i, s, a, k):
                dim = s.deref(k["dim"]) if "dim" in k else (s.deref(a[0]) if a else None)
                if not isinstance(dim, str) or k.get("ddof"):
                    raise Unsupported("std over all / several dimensions or with ddof")
                sk = s.deref(k.get("skipna", True))
                sk = True if sk is None else bool(sk)
                if sk and f["nan"] is not None:
                    raise Unsupported("std(skipna=True) of data with missing values")
                # population standard deviation: sqrt(mean((x - mean(x))**2)) along dim
                m = s.deref(xa_mean(i, s, o, dim, sk))
                dev = s.deref(xr_apply(s, T.sub, [o, m]))
                sq = s.deref(xr_apply(s, T.mul, [dev, dev]))
                var = s.deref(xa_mean(i, s, sq, dim, sk))
                return xr_apply(s, lambda x: T.uf("sqrt", x), [var])
            return method(std)
        if name == "argmax":
            return method(lambda i, s, a, k: xa_argmax(i, s, o, s.deref(k["dim"]) if "dim" in k else s.deref(a[0]),
                                                       skipna=(True if k.get("skipna", True) is None else bool(s.deref(k.get("skipna", True))))))
        if name == "__getitem__":
            return method(lambda i, s, a, k: self.special_getitem(i, s, ref, o, a[0]))
        if name == "copy":
            return method(lambda i, s, a, k: mk_xa(s, f["dims"], f["arr"], f["nan"], f["coords"], f["masks"], f["name"]))
        if name == "drop" or name == "drop_vars":
            def drop(i, s, a, k):
                nm = s.deref(a[0])
                if nm not in f["coords"]:
                    from ..interp import PyRaise
                    raise PyRaise(ExcVal("ValueError", ("cannot drop",)))
                return mk_xa(s, f["dims"], f["arr"], f["nan"], {d: c for d, c in f["coords"].items() if d != nm}, f["masks"], f["name"])
            return method(drop)
        if name == "expand_dims":
            def expand(i, s, a, k):
                dim = s.deref(k["dim"]) if "dim" in k else s.deref(a[0])
                axis = s.deref(k.get("axis", 0))
                newdims = list(dim) if isinstance(dim, (list, tuple)) else [dim]
                if len(newdims) != 1:
                    if not newdims:
                        return ref
                    raise Unsupported("expand_dims with several dimensions")
                nd_ = len(f["dims"])
                pos = axis + nd_ + 1 if axis < 0 else axis
                dims2 = f["dims"][:pos] + (newdims[0],) + f["dims"][pos:]
                arr, nn = f["arr"], f["nan"]
                shp = arr.shape[:pos] + (1,) + arr.shape[pos:]

                def g(src):
                    return lambda ix: src.get(tuple(ix[:pos]) + tuple(ix[pos + 1:]))
                return mk_xa(s, dims2, Arr(shp, g(arr), (), arr.sort), Arr(shp, g(nn), (), "bool") if nn is not None else None, f["coords"], f["masks"])
            return method(expand)
        return NotImplemented

    def obj_setattr(self, interp, st, ref, o, name, v):
        if o.cls == "DataArray" and name == "name":
            o.fields["name"] = v
            return True
        return NotImplemented

    # ---- operators
    def obj_binop(self, interp, st, opname, a, b):
        if opname.startswith("ufunc:"):
            u = opname[6:]
            if not is_xa(a):
                return NotImplemented
            if u in _UF:
                return xr_apply(st, lambda x: T.uf(u, x), [a])
            if u in ("abs", "absolute", "fabs"):
                return xr_apply(st, T.absv, [a])
            if u == "neg":
                return xr_apply(st, T.neg, [a])
            if u == "pos":
                return xr_apply(st, lambda x: x, [a])
            if u == "invert":
                return xr_apply(st, T.lnot, [a], sort="bool")
            if u in ("isnan",):
                return XrPlugin().obj_getattr(interp, st, None, a, "isnull").impl(interp, st, [], {})
            raise Unsupported(f"ufunc {u} on a DataArray")
        if opname.startswith("ufunc2:"):
            u = opname[7:]
            if u == "arctan2":
                return xr_apply(st, lambda x, y: T.uf2("arctan2", x, y), [a, b])
            raise Unsupported(f"binary ufunc {u} on a DataArray")
        if not (is_xa(a) or is_xa(b)):
            return NotImplemented
        if opname in _BIN:
            return xr_apply(st, _BIN[opname], [a, b])
        if opname in ("BitAnd", "BitOr"):
            f = T.land if opname == "BitAnd" else T.lor
            return xr_apply(st, f, [a, b], sort="bool")
        return NotImplemented

    def obj_compare(self, interp, st, op, a, b):
        if not (is_xa(a) or is_xa(b)):
            return NotImplemented
        return xr_apply(st, lambda x, y: T.cmp(op, x, y), [a, b], bool_result=True)

    def special_getitem(self, interp, st, ref, o, idx):
        if isinstance(o, Obj) and o.cls == "Dataset":
            k = st.deref(idx)
            return self._ds_get(interp, st, o, k)
        if not is_xa(o):
            return NotImplemented
        i = st.deref(idx)
        dims = o.fields["dims"]
        if isinstance(i, str):
            # data_array["coordinate name"]: the coordinate as a DataArray (KeyError otherwise)
            if i in o.fields["coords"]:
                c = o.fields["coords"][i]
                return mk_xa(st, (i,), c, None, {i: c})
            from ..interp import PyRaise
            raise PyRaise(ExcVal("KeyError", (i,)))
        if isinstance(i, dict):
            return st.alloc(xa_isel(interp, st, o, i), "DataArray")
        if isinstance(i, tuple):
            return st.alloc(xa_positional(interp, st, o, i), "DataArray")
        return st.alloc(xa_isel(interp, st, o, {dims[0]: i}), "DataArray")

    def obj_as_array(self, interp, st, o):
        """numpy's view of a DataArray (np.asarray / a store into an ndarray): its values, missing ones as NaN cells"""
        if not is_xa(o):
            return NotImplemented
        if o.fields["masks"]:
            raise Unsupported("array conversion of a lazily masked DataArray")
        a, nn = o.fields["arr"], o.fields["nan"]
        if nn is None:
            return a
        return Arr(a.shape, lambda ix: T.xr(a.get(ix), nn.get(ix)), (), "xreal")

    def special_len(self, interp, st, x):
        if is_xa(x):
            if x.fields["masks"]:
                raise Unsupported("len of a masked DataArray")
            return x.fields["arr"].shape[0]
        if isinstance(x, Obj) and x.cls == "Dataset":
            return len(x.fields["vars"])
        return NotImplemented

    def obj_isinstance(self, interp, st, o, typ):
        if isinstance(typ, TypeTag) and isinstance(o.cls, str) and o.cls in ("DataArray", "Dataset"):
            return typ.name == "xarray." + o.cls
        return NotImplemented

    def special_contains(self, interp, st, container, item):
        if isinstance(container, Obj) and container.cls == "Dataset":
            return item in container.fields["vars"] or item in container.fields["coords"]
        return NotImplemented

    def special_iterate(self, interp, st, v, o):
        if isinstance(o, Obj) and o.cls == "Dataset":
            return list(o.fields["vars"].keys())
        if isinstance(o, Obj) and not isinstance(o.cls, str) and interp.class_lookup(o.cls, "__iter__"):
            # iteration protocol of a repository class: iterate what its __iter__ returns
            return interp.iterate(st, interp.call_method(st, v, "__iter__", [], {}))
        return NotImplemented

    def special_setitem(self, interp, st, ref, o, idx, v):
        if isinstance(o, Obj) and o.cls == "Dataset":
            k = st.deref(idx)
            vv = st.deref(v)
            if isinstance(vv, list) and isinstance(k, str):
                # ds[name] = [v0, v1, ...]: a one-dimensional variable along a dimension of the same name, i.e. the
                # dimension coordinate `name` with these values
                cells = {}
                for j, x in enumerate(vv):
                    x = st.deref(x)
                    if isinstance(x, Arr):
                        if x.ndim != 0:
                            raise Unsupported("Dataset[name] = list of non-scalar arrays")
                        x = x.get(())
                    if not T.is_num(x):
                        raise Unsupported("Dataset[name] = list of non-numbers")
                    cells[(j,)] = x
                o.fields["coords"][k] = CArr((len(vv),), cells)
                o.fields.setdefault("index_from_list", set()).add(k)
                o.fields.setdefault("writes", []).append(k)
                return True
            o.fields["vars"][k] = v
            o.fields.setdefault("writes", []).append(k)
            if is_xa(vv):
                # the variable brings its dimension coordinates along (existing coordinates of the dataset are kept)
                for ck, cv in vv.fields["coords"].items():
                    if ck in o.fields.get("index_from_list", ()):
                        # xarray aligns an assigned variable to the dataset's existing index (re-ordering / NaN-filling it):
                        # only the case in which nothing is re-aligned - identical coordinate values - is modelled
                        mine = o.fields["coords"][ck]
                        same = isinstance(cv, CArr) and cv.shape == mine.shape and all(
                            (cv.data[c] is mine.data[c]) or (is_sym(cv.data[c]) and is_sym(mine.data[c]) and cv.data[c].eq(mine.data[c]))
                            or (not is_sym(cv.data[c]) and not is_sym(mine.data[c]) and cv.data[c] == mine.data[c]) for c in mine.data)
                        if not same:
                            raise Unsupported(f"Dataset[name] = DataArray whose {ck} coordinate is not identical to the dataset's index (alignment not modelled)")
                    o.fields["coords"].setdefault(ck, cv)
            return True
        return NotImplemented

    # ---- datasets
    def _ds_get(self, interp, st, o, k):
        if k in o.fields["vars"]:
            return o.fields["vars"][k]
        if k in o.fields["coords"]:
            c = o.fields["coords"][k]
            if c.ndim == 0:
                return mk_xa(st, (), c, None, {})
            return mk_xa(st, (k,), c, None, {k: c})
        from ..interp import PyRaise
        raise PyRaise(ExcVal("KeyError", (k,)))

    def _ds_getattr(self, interp, st, ref, o, name):
        if name == "coords":
            return st.alloc(dict(o.fields["coords"]), "coords")
        if name == "dims":
            # Dataset.dims: mapping dimension name -> length (over the data variables, in order of first appearance)
            sizes = {}
            for v in o.fields["vars"].values():
                x = st.deref(v)
                if is_xa(x):
                    for d, n in zip(x.fields["dims"], x.fields["arr"].shape):
                        sizes.setdefault(d, n)
            return st.alloc(sizes, "dims")
        if name in ("keys",):
            return LibFunc("Dataset.keys", lambda i, s, a, k: s.alloc(list(o.fields["vars"]), "list"))
        if name == "__getitem__":
            return LibFunc("Dataset.__getitem__", lambda i, s, a, k: self._ds_get(i, s, o, s.deref(a[0])))
        if name == "__setitem__":
            return LibFunc("Dataset.__setitem__", lambda i, s, a, k: self.special_setitem(i, s, ref, o, a[0], a[1]) and None)
        if name == "__iter__":
            return LibFunc("Dataset.__iter__", lambda i, s, a, k: s.alloc(list(o.fields["vars"]), "list"))
        if name == "copy":
            def cp(i, s, a, k):
                deep = bool(s.deref(k.get("deep", a[0] if a else False)))
                vs = dict(o.fields["vars"])
                if deep:
                    # fresh buffers: every variable becomes a new DataArray object (same values)
                    for kk, v in list(vs.items()):
                        x = s.deref(v)
                        if is_xa(x):
                            vs[kk] = mk_xa(s, x.fields["dims"], x.fields["arr"], x.fields["nan"], x.fields["coords"], x.fields["masks"], x.fields["name"])
                return s.alloc(Obj("Dataset", {"vars": vs, "coords": dict(o.fields["coords"]), "deep_copy_of": id(o) if deep else None}), "Dataset")
            return LibFunc("Dataset.copy", lib._wrap("xarray.Dataset.copy", cp))
        if name == "assign":
            def assign(i, s, a, k):
                d = dict(s.deref(a[0])) if a else {}
                d.update(k)
                nv = dict(o.fields["vars"])
                nv.update(d)
                cs = dict(o.fields["coords"])
                for v in d.values():
                    vv = s.deref(v)
                    if is_xa(vv):
                        for ck, cv in vv.fields["coords"].items():
                            cs.setdefault(ck, cv)
                        for ck, cv in (vv.fields.get("scoords") or {}).items():
                            if ck not in nv:
                                cs.setdefault(ck, cv)
                return s.alloc(Obj("Dataset", {"vars": nv, "coords": cs}), "Dataset")
            return LibFunc("Dataset.assign", lib._wrap("xarray.Dataset.assign", assign))
        if name == "dims":
            # names of the dimensions of the variables (in order of first appearance)
            ds_ = []
            for v in o.fields["vars"].values():
                x = st.deref(v)
                if is_xa(x):
                    for d in x.fields["dims"]:
                        if d not in ds_:
                            ds_.append(d)
            return tuple(ds_)
        if name == "reset_coords":
            def reset(i, s, a, k):
                nm = s.deref(a[0] if a else k["names"])
                if not isinstance(nm, str) or k.get("drop"):
                    raise Unsupported("reset_coords: only a single name, drop=False")
                from ..interp import PyRaise
                if nm not in o.fields["coords"]:
                    raise PyRaise(ExcVal("ValueError", ("not a coordinate",)))
                c = o.fields["coords"][nm]
                if c.ndim != 0:
                    raise PyRaise(ExcVal("ValueError", ("cannot remove index coordinates with reset_coords",)))
                # a non-index (scalar) coordinate becomes a data variable with the same value
                nv = dict(o.fields["vars"])
                nv[nm] = mk_xa(s, (), c, None, {})
                return s.alloc(Obj("Dataset", {"vars": nv, "coords": {kk: vv for kk, vv in o.fields["coords"].items() if kk != nm}}), "Dataset")
            return LibFunc("Dataset.reset_coords", lib._wrap("xarray.Dataset.reset_coords", reset))
        if name in o.fields["vars"] or name in o.fields["coords"]:
            return self._ds_get(interp, st, o, name)
        return NotImplemented


PLUGIN = XrPlugin()
lib.PLUGINS.insert(0, PLUGIN)


def _xr_where(interp, st, args, kwargs):
    c, a, b = args
    cd = st.deref(c)
    if not (is_xa(cd) or is_xa(st.deref(a)) or is_xa(st.deref(b))):
        return lib.np_where(interp, st, args, kwargs)

    def fn(cc, x, y):
        return T.ite(cc, x, y)

    def nanfn(ns, vs):
        cc = T.land(vs[0], T.lnot(ns[0]))
        return T.ite(cc, ns[1], ns[2])
    return xr_apply(st, fn, [c, a, b], nanfn=nanfn)


REG["xarray.where"] = LibFunc("xarray.where", lib._wrap("xarray.where", _xr_where))


def _xr_concat(interp, st, args, kwargs):
    """xarray.concat([a_0, ..., a_{N-1}], dim=name) for DataArrays of one common layout (same dimension names, sizes and
    dimension coordinates) that do NOT have the dimension `name`: a new leading dimension `name` of length N, member k is the
    k-th argument (values and missing flags); if every argument carries `name` as a scalar coordinate, these N values become
    the coordinate of the new dimension.  (Arguments on different coordinates would be outer-joined by xarray: not modelled.)"""
    objs = st.deref(args[0] if args else kwargs["objs"])
    dim = st.deref(kwargs["dim"] if "dim" in kwargs else args[1])
    if set(kwargs) - {"dim", "objs"} or not isinstance(dim, str) or not isinstance(objs, (list, tuple)) or not objs:
        raise Unsupported("xarray.concat: only concat(list of DataArrays, dim=name)")
    xs = [st.deref(x) for x in objs]
    if not all(is_xa(x) for x in xs):
        raise Unsupported("xarray.concat of something that is not a DataArray")
    x0 = xs[0]
    dims, shape = x0.fields["dims"], tuple(x0.fields["arr"].shape)
    if dim in dims:
        raise Unsupported("xarray.concat along an existing dimension")
    for x in xs[1:]:
        if x.fields["dims"] != dims or x.fields["masks"] or x0.fields["masks"]:
            raise Unsupported("xarray.concat of DataArrays with different layouts")
        for n0, n1 in zip(shape, x.fields["arr"].shape):
            if not (n0 is n1 or (isinstance(n0, int) and isinstance(n1, int) and n0 == n1) or interp.valid(st, T.to_z3(T.cmp("==", n0, n1)), timeout=3000)):
                raise Unsupported("xarray.concat of DataArrays with different sizes")
        if set(x.fields["coords"]) != set(x0.fields["coords"]) or any(x.fields["coords"][d] is not x0.fields["coords"][d] for d in x0.fields["coords"]):
            raise Unsupported("xarray.concat of DataArrays on different coordinates")
    N = len(xs)

    def stack(srcs):
        def g(ix):
            k = ix[0]
            if isinstance(k, int):
                return srcs[k].get(tuple(ix[1:]))
            v = srcs[N - 1].get(tuple(ix[1:]))
            for j in range(N - 2, -1, -1):
                v = T.ite(T.cmp("==", k, j), srcs[j].get(tuple(ix[1:])), v)
            return v
        return g
    arr = Arr((N,) + shape, stack([x.fields["arr"] for x in xs]), (), x0.fields["arr"].sort)
    nan = None
    if any(x.fields["nan"] is not None for x in xs):
        false = Arr(shape, lambda ix: False, (), "bool")
        nan = Arr((N,) + shape, stack([x.fields["nan"] if x.fields["nan"] is not None else false for x in xs]), (), "bool")
    coords = dict(x0.fields["coords"])
    if all(dim in (x.fields.get("scoords") or {}) for x in xs):
        coords[dim] = CArr((N,), {(j,): x.fields["scoords"][dim].get(()) for j, x in enumerate(xs)})
    return mk_xa(st, (dim,) + dims, arr, nan, coords)


REG["xarray.concat"] = LibFunc("xarray.concat", lib._wrap("xarray.concat", _xr_concat))


def _xr_dataarray(interp, st, args, kwargs):
    data = kwargs["data"] if "data" in kwargs else args[0]
    d = st.deref(data)
    if is_xa(d):
        return data
    if isinstance(d, Arr):
        dims = st.deref(kwargs.get("dims")) if "dims" in kwargs else None
        coords = st.deref(kwargs.get("coords")) if "coords" in kwargs else None
        if dims is None:
            dims = tuple(f"dim_{k}" for k in range(d.ndim))
        if isinstance(dims, str):
            dims = (dims,)
        dims = tuple(st.deref(x) for x in (interp.iterate(st, dims) if not isinstance(dims, tuple) else dims))
        cs = {}
        if isinstance(coords, dict):
            for k, v in coords.items():
                vv = st.deref(v)
                if is_xa(vv):
                    vv = vv.fields["arr"]
                if isinstance(vv, Arr) and k in dims:
                    cs[k] = vv
        nan = getattr(d, "nanmask", None)
        if lib._may_be_nan(d):
            # numpy data whose cells carry their own missing flag: values and flags are separated
            d0 = d
            nan0 = nan
            d = Arr(d0.shape, lambda ix, d0=d0: T.xval(d0.get(ix)), (), "real", d0.name)
            nan = Arr(d0.shape, lambda ix, d0=d0, nan0=nan0: T.lor(T.xnan(d0.get(ix)), nan0.get(ix) if nan0 is not None else False), (), "bool")
        return mk_xa(st, dims, d, nan, cs)
    if T.is_num(d):
        return mk_xa(st, (), CArr((), {(): d}), None, {})
    if isinstance(d, Opaque) or d is None:
        return data
    raise Unsupported("xarray.DataArray of this value")


REG["xarray.DataArray"] = TypeTag("xarray.DataArray", _xr_dataarray)


def _xr_dataset(interp, st, args, kwargs):
    vs = {}
    src = st.deref(args[0]) if args else (st.deref(kwargs.get("data_vars")) if "data_vars" in kwargs else None)
    coords = {}
    if is_xa(src) or (isinstance(src, Obj) and src.cls == "Dataset"):
        # xarray >= 2024: Dataset(<Dataset>) is not a copy constructor
        from ..interp import PyRaise
        raise PyRaise(ExcVal("TypeError", ("Passing a Dataset as data_vars to the Dataset constructor is not supported",)))
    cd = st.deref(kwargs.get("coords")) if "coords" in kwargs else None
    if isinstance(cd, dict):
        for k, v in cd.items():
            vv = st.deref(v)
            if is_xa(vv):
                vv = vv.fields["arr"]
            if isinstance(vv, Arr):
                coords[k] = vv
    if isinstance(src, dict):
        for k, v in src.items():
            vv = st.deref(v)
            if isinstance(vv, tuple) and len(vv) == 2:
                # (dims, data)
                dims = st.deref(vv[0])
                dims = tuple(st.deref(x) for x in (dims if isinstance(dims, (list, tuple)) else [dims]))
                data = st.deref(vv[1])
                if is_xa(data):
                    data = data.fields["arr"]
                if not isinstance(data, Arr):
                    raise Unsupported("Dataset variable given as (dims, non-array)")
                v = mk_xa(st, dims, data, getattr(data, "nanmask", None), {d: coords[d] for d in dims if d in coords})
                vv = st.deref(v)
            vs[k] = v
            if is_xa(vv):
                coords.update(vv.fields["coords"])
    return st.alloc(Obj("Dataset", {"vars": vs, "coords": coords}), "Dataset")


REG["xarray.Dataset"] = TypeTag("xarray.Dataset", _xr_dataset)


# numpy functions applied to DataArrays
def _patch_numpy():
    for u in list(_UF) + ["abs", "absolute", "fabs"]:
        pass   # unary ufuncs already dispatch through lib._unary -> obj_binop("ufunc:..")
    old = REG["numpy.arctan2"]

    def arctan2(interp, st, args, kwargs, old=old):
        a, b = st.deref(args[0]), st.deref(args[1])
        if is_xa(a) or is_xa(b):
            return PLUGIN.obj_binop(interp, st, "ufunc2:arctan2", a, b)
        return old.impl(interp, st, args, kwargs)
    REG["numpy.arctan2"] = LibFunc("numpy.arctan2", arctan2)


_patch_numpy()


def _np_trapz_missing(interp, st, args, kwargs):
    """pinned numpy (2.x) has no np.trapz: attribute access succeeds in the model, the call raises what
    the real attribute lookup raises"""
    from ..interp import PyRaise
    raise PyRaise(ExcVal("AttributeError", ("module 'numpy' has no attribute 'trapz'",)))


REG["numpy.trapz"] = LibFunc("numpy.trapz", lib._wrap("numpy.trapz (absent in numpy>=2)", _np_trapz_missing))


def _np_trapezoid(interp, st, args, kwargs):
    """np.trapezoid(y, x) along the last axis, for DataArray operands (lazily band-selected along that axis)"""
    y = st.deref(args[0])
    x = st.deref(args[1] if len(args) > 1 else kwargs.get("x"))
    if not is_xa(y) or not is_xa(x):
        raise Unsupported("np.trapezoid of non-DataArray operands")
    dim = y.fields["dims"][-1]
    if x.fields["dims"] != (dim,):
        raise Unsupported("np.trapezoid: x is not the coordinate of the last axis of y")
    ym, xm = y.fields["masks"].get(dim), x.fields["masks"].get(dim)
    if ym is not xm:
        raise Unsupported("np.trapezoid: y and x selected with different masks")
    tmp = Obj("DataArray", {"dims": y.fields["dims"], "arr": y.fields["arr"], "nan": y.fields["nan"],
                            "coords": {**y.fields["coords"], dim: x.fields["arr"]}, "masks": y.fields["masks"], "name": None})
    r = st.deref(xa_integrate(interp, st, tmp, dim))
    a = r.fields["arr"]
    out = Arr(a.shape, a.base, a.ups, a.sort)
    if r.fields["nan"] is not None:
        out.nanmask = r.fields["nan"]
    return st.alloc(out, "trapezoid")


REG["numpy.trapezoid"] = LibFunc("numpy.trapezoid", lib._wrap("numpy.trapezoid", _np_trapezoid))
