"""C02 — directional integration of a 2D spectrum conserves energy and bounds the moments."""
from pyvc.api import *
from pyvc.run import Lemma, Bounded
from contracts.spec_common import *
import contracts.C01 as C01
from contracts.C01 import e_of, dtheta, wrap180, direction_step, e_2d, _result_xa, _shape_e, _shape_p, _native, _wit_spectra, REQ2, _p_2d
import pyvc.models.xr   # noqa

PROPERTY = "C02"
LEVEL = "proof"


def _trig(name, x):
    if is_symbolic(x):
        return T.uf(name, x)
    import math
    return getattr(math, name)(x)


def _rad(sp, j, mult):
    th = sp.theta[j]
    if is_symbolic(th):
        return mult * (th * T.PI / 180) if mult != 1 else th * T.PI / 180
    import math
    return mult * float(th) * math.pi / 180


def moment_num(sp, p, i, fn, mult):
    """sum over directions of E * fn(mult*theta) * dtheta, missing counted as zero"""
    return Sum(0, sp.nd, lambda j: fill0(sp.E(p, i, j) * _trig(fn, _rad(sp, j, mult)) * dtheta(sp, j), sp.E_nan(p, i, j)))


MOMENTS = {"a1": ("cos", 1), "b1": ("sin", 1), "a2": ("cos", 2), "b2": ("sin", 2)}


def _moment_post(name):
    fn, mult = MOMENTS[name]

    def post(a, r):
        sp = Spec(a.self)
        if hasattr(r, "_o"):
            arr = r.arr
            get = lambda p, i: arr[p, i]
        else:
            import numpy as np
            v = np.asarray(r.values).reshape(sp.np_, sp.nf)
            get = lambda p, i: float(v[p, i])
        return forall(0, sp.np_, lambda p: forall(0, sp.nf, lambda i: implies(
            Not(eq(e_of(sp, p, i), 0, rtol=0, atol=0)),
            eq(get(p, i), moment_num(sp, p, i, fn, mult) / e_of(sp, p, i) if is_symbolic(get(p, i)) else
               (moment_num(sp, p, i, fn, mult) / e_of(sp, p, i)), rtol=1e-9, atol=1e-12)), "i"), "p")
    return post


def _moment_contract(name):
    return Contract(S + "FrequencyDirectionSpectrum." + name, params=_p_2d, requires=REQ2,
                    ensures=[("weighted_directional_sum_over_e", _moment_post(name))], native=_native,
                    callees={direction_step.target: direction_step, e_2d.target: e_2d},
                    options={"result": _result_xa(name, (P, NAME_F), _shape_e), "native_call": lambda kw, inst, name=name: getattr(kw["self"], name)},
                    witness=[lambda: ("", {"self": _wit_spectra()[1]})])


a1_c, b1_c, a2_c, b2_c = (_moment_contract(n) for n in ("a1", "b1", "a2", "b2"))


# ---- conversion to a 1D spectrum: e and the moments become the variables, everything else is carried over
def _as1d_native(a, r):
    import numpy as np
    s2 = a.self
    ok = type(r).__name__ == "FrequencySpectrum"
    ok = ok and np.allclose(r.e.values, s2.e.values, equal_nan=True) and np.allclose(r.a1.values, s2.a1.values, equal_nan=True)
    ok = ok and np.allclose(r.b2.values, s2.b2.values, equal_nan=True)
    for v in ("depth", "latitude", "longitude"):
        ok = ok and np.allclose(r.dataset[v].values, s2.dataset[v].values, equal_nan=True)
    ok = ok and np.array_equal(r.dataset["time"].values, s2.dataset["time"].values)
    return bool(ok)


def _as1d_e(a, r):
    if not hasattr(r, "_o"):
        return _as1d_native(a, r)
    sp = Spec(a.self)
    vs = r.dataset.vars
    return forall(0, sp.np_, lambda p: forall(0, sp.nf, lambda i: eq(vs[NAME_E].arr[p, i], e_of(sp, p, i)), "i"), "p")


def _as1d_moment(name):
    fn, mult = MOMENTS[name]

    def post(a, r):
        if not hasattr(r, "_o"):
            return True
        sp = Spec(a.self)
        vs = r.dataset.vars
        return forall(0, sp.np_, lambda p: forall(0, sp.nf, lambda i: implies(
            Not(eq(e_of(sp, p, i), 0)), eq(vs[name].arr[p, i], moment_num(sp, p, i, fn, mult) / e_of(sp, p, i))), "i"), "p")
    return post


def _as1d_rest(a, r):
    if not hasattr(r, "_o"):
        return True
    vs = r.dataset.vars
    src = a.self.dataset.vars
    return And(*[vs[v]._o is src[v]._o for v in ("depth", "latitude", "longitude")],
               set(vs) == {NAME_E, "a1", "b1", "a2", "b2", "depth", "latitude", "longitude"},
               r.dataset.coords["time"]._a is a.self.dataset.coords["time"]._a,
               r._o.cls.qualname == "FrequencySpectrum")


as_frequency_spectrum = Contract(
    S + "FrequencyDirectionSpectrum.as_frequency_spectrum", params=_p_2d, requires=REQ2,
    ensures=[("variance_density_is_e", _as1d_e)] + [(f"{m}_is_the_2d_moment", _as1d_moment(m)) for m in MOMENTS] +
            [("time_position_depth_carried_over", _as1d_rest)], native=_native,
    callees={e_2d.target: e_2d, a1_c.target: a1_c, b1_c.target: b1_c, a2_c.target: a2_c, b2_c.target: b2_c},
    witness=[lambda: ("", {"self": _wit_spectra()[1]})],
)


# ---- e(f) follows the data: evaluate e, replace the density in place, evaluate e again
def _p_update(mk):
    sp = spectrum(mk, "2d", moments=False, via_init=True)
    o = mk.st.deref(mk.st.deref(sp).fields["dataset"])
    E = mk.st.deref(o.fields["vars"][NAME_E]).fields["arr"]
    new = xr.mk_xa(mk.st, (P, NAME_F, NAME_D), mk.st.deref(mk.array("E_new", E.shape)), None, dict(o.fields["coords"]))
    return {"self": sp, "new_density": new}


def _update_call(interp, st, fv, args):
    s_ = args["self"]
    first = interp.getattr(st, s_, "e")
    interp.setitem(st, s_, NAME_E, args["new_density"])
    return interp.getattr(st, s_, "e")


def _update_native(kw, inst):
    s_ = kw["self"]
    _ = s_.e
    s_[NAME_E] = kw["new_density"]
    return s_.e


def _update_post(a, r):
    if hasattr(r, "_o"):
        sp = Spec(a.self)
        new = a.new_density.arr
        arr = r.arr
        return forall(0, sp.np_, lambda p: forall(0, sp.nf, lambda i: eq(
            arr[p, i], Sum(0, sp.nd, lambda j: new[p, i, j] * dtheta(sp, j))), "i"), "p")
    import numpy as np
    s2 = a.self
    fresh = type(s2)(s2.dataset.copy(deep=True))
    return bool(np.allclose(np.asarray(r.values), np.asarray(fresh.e.values), equal_nan=True))


def _wit_update():
    import numpy as np
    s2 = _wit_spectra()[1]
    new = s2.dataset[NAME_E] * 0.0 + np.random.default_rng(1).random(s2.dataset[NAME_E].shape)
    return ("", {"self": s2, "new_density": new})


e_follows_data = Contract(
    S + "FrequencyDirectionSpectrum.e", label="e_after_in_place_update", params=_p_update, requires=REQ2,
    ensures=[("e_is_recomputed_from_current_density", _update_post)], call=_update_call,
    callees={direction_step.target: direction_step}, witness=[_wit_update],
    options={"native_call": _update_native},
)


# ---- bounded: unit-disc bounds of the moments for non-negative densities (the Cauchy-Schwarz lemma is not mechanised)
def _bounded_unit_disc(tier, seed):
    import numpy as np
    from ocean_science_utilities.wavespectra.spectrum import create_2d_spectrum
    rng = np.random.default_rng(seed + 5)
    n = 40 if tier == "quick" else 400
    fails, samples = [], []
    for k in range(n):
        nd = int(rng.choice([8, 12, 24, 36, 72, 144]))
        nf = int(rng.integers(3, 12))
        if k % 2:
            d = np.sort(rng.uniform(0, 360, nd))
            while np.max(np.diff(np.concatenate([d, [d[0] + 360]]))) >= 180:
                d = np.sort(rng.uniform(0, 360, nd))
        else:
            d = (np.linspace(0, 360, nd, endpoint=False) + rng.uniform(0, 360)) % 360
            d = np.sort(d)
        f = np.sort(rng.uniform(0.03, 1.0, nf))
        E = rng.random((2, nf, nd)) * (rng.random((2, nf, nd)) > 0.4)
        E[0, 0, :] = 0.0
        if k % 3 == 0:
            E[1, 1, 2] = np.nan
        s = create_2d_spectrum(f, d, E, np.arange(2) * 3600.0, np.zeros(2), np.zeros(2), depth=np.full(2, np.inf))
        w = s.direction_step.values
        a1, b1, a2, b2 = (np.asarray(getattr(s, m).values) for m in ("a1", "b1", "a2", "b2"))
        ok = np.isclose(w.sum(), 360.0) and np.all(w > 0)
        with np.errstate(invalid="ignore"):
            fin = np.isfinite(a1)
            ok = ok and np.all(np.abs(a1[fin]) <= 1 + 1e-9) and np.all(np.abs(b1[fin]) <= 1 + 1e-9)
            ok = ok and np.all(np.abs(a2[fin]) <= 1 + 1e-9) and np.all(np.abs(b2[fin]) <= 1 + 1e-9)
            ok = ok and np.all((a1 ** 2 + b1 ** 2)[fin] <= 1 + 1e-9)
        s1 = s.as_frequency_spectrum()
        ok = ok and np.allclose(s1.m0().values, s.m0().values) and np.allclose(s1.hm0().values, s.hm0().values)
        if not ok:
            fails.append({"case": k, "nd": nd, "nf": nf, "uniform": k % 2 == 0})
        if len(samples) < 2:
            samples.append({"case": k, "nd": nd, "nf": nf, "max_a1^2+b1^2": float(np.nanmax(a1 ** 2 + b1 ** 2))})
    return {"evaluations": n, "distinct": n, "failures": fails[:5], "samples": samples,
            "domain": f"{n} random non-negative 2D spectra (zero and NaN bins), uniform and non-uniform direction grids of 8..144 bins covering the circle"}


BOUNDED = [Bounded("unit_disc_and_conservation", _bounded_unit_disc)]


# ---- lemma: on a direction grid covering the circle the bin widths sum to 360
def _grid_hyps(th, nd):
    import z3
    j = z3.Int("gj")
    return [nd >= 2,
            z3.ForAll([j], z3.Implies(z3.And(0 <= j, j < nd - 1), z3.And(th(j + 1) - th(j) > 0, th(j + 1) - th(j) < 180))),
            th(nd - 1) - th(0) < 360, th(nd - 1) - th(0) > 180]


def _lemma_prefix():
    """induction: for 0 <= n <= nd-1:  sum_{j<n} dtheta_j == theta_n - theta_0  (step case)"""
    import z3
    th = z3.Function("theta_l", T.IntS, T.RealS)
    nd, n = z3.Ints("nd_l n_l")
    class SP:  # minimal spec view
        theta = type("A", (), {"__getitem__": lambda self, j: th(T.to_z3(j))})()
    SP.nd = nd
    S_ = SumOf(lambda j: dtheta(SP, j))
    pref = lambda m: S_(0, m)
    hyps = _grid_hyps(th, nd) + [0 <= n, n + 1 <= nd - 1, pref(n) == th(n) - th(0)]
    return hyps, pref(n + 1) == th(n + 1) - th(0)


def _lemma_total():
    """given the prefix identity at n = nd-1, the full sum is 360"""
    import z3
    th = z3.Function("theta_l", T.IntS, T.RealS)
    nd = z3.Int("nd_l")
    class SP:
        theta = type("A", (), {"__getitem__": lambda self, j: th(T.to_z3(j))})()
    SP.nd = nd
    S_ = SumOf(lambda j: dtheta(SP, j))
    pref = lambda m: S_(0, m)
    hyps = _grid_hyps(th, nd) + [pref(nd - 1) == th(nd - 1) - th(0)]
    return hyps, pref(nd) == 360


def _lemma_moment_magnitude():
    """for non-negative weights w_j (density times bin width) with positive total and any c_j in [-1, 1] (cos / sin of theta or 2 theta):
    -sum w <= sum c_j w_j <= sum w, hence the moment (their quotient) lies in [-1, 1]"""
    import z3
    w = z3.Function("w_l", T.IntS, T.RealS)
    c = z3.Function("c_l", T.IntS, T.RealS)
    nd = z3.Int("nd_l")
    j = z3.Int("mj")
    Sw = SumOf(lambda k: w(T.to_z3(k)))
    Scw = SumOf(lambda k: c(T.to_z3(k)) * w(T.to_z3(k)))
    Sm = SumOf(lambda k: -w(T.to_z3(k)))
    hyps = [nd >= 1, z3.ForAll([j], z3.And(w(j) >= 0, c(j) >= -1, c(j) <= 1,
                                           c(j) * w(j) <= w(j), c(j) * w(j) >= -w(j))),      # the pointwise bound (a product of a factor in [-1,1] and a non-negative weight)
            Sw(0, nd) > 0]
    goal = z3.And(Scw(0, nd) <= Sw(0, nd), Scw(0, nd) >= Sm(0, nd), Scw(0, nd) / Sw(0, nd) <= 1)
    return hyps, goal


def _lemma_pointwise_bound():
    """the pointwise fact used above: -w <= c w <= w for w >= 0 and -1 <= c <= 1"""
    import z3
    w, c = z3.Reals("w_p c_p")
    return [w >= 0, c >= -1, c <= 1], z3.And(c * w <= w, c * w >= -w)


# ---- a1^2 + b1^2 <= 1 for non-negative densities.  With A = sum c_j w_j, B = sum s_j w_j, S = sum w_j (c_j^2 + s_j^2 = 1, w_j >= 0):
#  (1) pointwise: c u + s v <= 1 for every unit vector (u, v);  (2) sum_j w_j (c_j u + s_j v) = u A + v B (normal form, linearity);
#  (3) that sum is <= S (monotone schema);  (4) with (u, v) = (A, B)/r, r = sqrt(A^2 + B^2): r <= S, i.e. A^2 + B^2 <= S^2.
def _disc_syms():
    import z3
    w, c, sn = (z3.Function(n, T.IntS, T.RealS) for n in ("w_d", "c_d", "s_d"))
    nd = z3.Int("nd_d")
    u, v = z3.Reals("u_d v_d")
    return w, c, sn, nd, u, v


def _lemma_disc_pointwise():
    import z3
    c, sn, u, v = z3.Reals("c_p s_p u_p v_p")
    return [c * c + sn * sn == 1, u * u + v * v == 1], c * u + sn * v <= 1


def _lemma_disc_linear():
    from pyvc.calculus import Algebra
    w, c, sn, nd, u, v = _disc_syms()
    mixed = SumOf(lambda k: w(T.to_z3(k)) * (c(T.to_z3(k)) * u + sn(T.to_z3(k)) * v))(0, nd)
    A = SumOf(lambda k: c(T.to_z3(k)) * w(T.to_z3(k)))(0, nd)
    B = SumOf(lambda k: sn(T.to_z3(k)) * w(T.to_z3(k)))(0, nd)
    alg = Algebra()
    pl, pr = alg.from_term(T.to_z3(mixed)), alg.from_term(T.to_z3(u * A + v * B))
    return [nd >= 1], True if pl == pr else eq(alg.to_term(alg.add(pl, alg.neg(pr))), 0)


def _lemma_disc_bound():
    import z3
    w, c, sn, nd, u, v = _disc_syms()
    j = z3.Int("dj")
    mixed = SumOf(lambda k: w(T.to_z3(k)) * (c(T.to_z3(k)) * u + sn(T.to_z3(k)) * v))
    S = SumOf(lambda k: w(T.to_z3(k)))
    hyps = [nd >= 1, z3.ForAll([j], z3.And(w(j) >= 0, w(j) * (c(j) * u + sn(j) * v) <= w(j)))]      # pointwise: lemma (1) times w_j >= 0
    return hyps, mixed(0, nd) <= S(0, nd)


def _lemma_disc_final():
    import z3
    A, B, S, r = z3.Reals("A_d B_d S_d r_d")
    hyps = [r > 0, r * r == A * A + B * B, S > 0, (A / r) * (A / r) + (B / r) * (B / r) == 1, (A / r) * A + (B / r) * B <= S]
    return hyps, z3.And(r <= S, A * A + B * B <= S * S, (A / S) * (A / S) + (B / S) * (B / S) <= 1)


def _lemma_disc_unit():
    import z3
    A, B, r = z3.Reals("A_d B_d r_d")
    return [r > 0, r * r == A * A + B * B], (A / r) * (A / r) + (B / r) * (B / r) == 1


LEMMAS_DISC2 = [Lemma("unit_disc.normalised_vector_is_a_unit_vector", _lemma_disc_unit, "(A, B)/r with r^2 = A^2 + B^2 (the case A = B = 0 is trivial: a1 = b1 = 0)"),
                Lemma("unit_disc.projection_on_a_unit_vector_at_most_one", _lemma_disc_pointwise, "c u + s v <= 1"),
                Lemma("unit_disc.weighted_projection_is_u_A_plus_v_B", _lemma_disc_linear, "linearity (calculus normal form)"),
                Lemma("unit_disc.weighted_projection_at_most_total_weight", _lemma_disc_bound, "monotone Sum schema", meta={"sum_monotone": True}),
                Lemma("unit_disc.a1_squared_plus_b1_squared_at_most_one", _lemma_disc_final, "unit vector along (A, B)")]

LEMMAS_DISC = [Lemma("moment_magnitude_pointwise_bound", _lemma_pointwise_bound, "-w <= c w <= w"),
               Lemma("moment_magnitude_at_most_one", _lemma_moment_magnitude, "|sum c_j w_j| <= sum w_j, quotient <= 1 (monotone Sum schema)", meta={"sum_monotone": True})]

LEMMAS = [Lemma("bin_widths_prefix_sum_step", _lemma_prefix, "induction step of sum_{j<n} dtheta_j = theta_n - theta_0 on an ascending grid with gaps < 180"),
          Lemma("bin_widths_sum_to_360", _lemma_total, "with the prefix identity (base case n=0 is the empty sum): total of the wrapped bin widths is 360")] + LEMMAS_DISC + LEMMAS_DISC2

# ---- operations.integrate_spectral_data: the same quadrature for an arbitrary DataArray on the spectral grid
def _p_isd(dims):
    def p(mk):
        npnt, nf, nd = mk.size("np"), mk.size("nf"), mk.size("nd")
        f, th = mk.array("f", (nf,)), mk.array("theta", (nd,))
        data = xr.mk_xa(mk.st, (P, NAME_F, NAME_D), mk.st.deref(mk.array("X", (npnt, nf, nd))), mk.st.deref(mk.array("X_nan", (npnt, nf, nd), "bool")),
                        {NAME_F: mk.st.deref(f), NAME_D: mk.st.deref(th)})
        return {"dataset": data, "dims": dims if isinstance(dims, str) else mk.st.alloc(list(dims), "list")}
    return p


class _XV:
    """view of the DataArray argument in both modes"""

    def __init__(self, x):
        self.sym = hasattr(x, "_o")
        if self.sym:
            self.arr, self.nan = x.arr, x.nan
            self.f, self.theta = x.coords[NAME_F], x.coords[NAME_D]
            self.np_, self.nf, self.nd = self.arr.shape
        else:
            import numpy as np
            self.v = np.asarray(x.values, dtype="float64")
            self.f, self.theta = x[NAME_F].values, x[NAME_D].values
            self.np_, self.nf, self.nd = self.v.shape

    def val(self, p, i, j):
        return self.arr[p, i, j] if self.sym else float(self.v[p, i, j])

    def isnan(self, p, i, j):
        if self.sym:
            return self.nan[p, i, j]
        import math
        return math.isnan(float(self.v[p, i, j]))


def _isd_post(a, r):
    X = _XV(a.dataset)
    dims = a.dims if isinstance(a.dims, (str,)) else list(a.dims)
    dims = [dims] if isinstance(dims, str) else dims
    sp = type("S", (), {"theta": X.theta, "nd": X.nd})
    if hasattr(r, "_o"):
        get = lambda *ix: r.arr[ix]
    else:
        import numpy as np
        rv = np.asarray(r.values, dtype="float64")
        get = lambda *ix: float(rv[ix])

    def trap(g):
        return Sum(0, X.nf - 1, lambda i: (g(i) + g(i + 1)) / 2 * (X.f[i + 1] - X.f[i]))
    if dims == [NAME_D]:
        return forall(0, X.np_, lambda p: forall(0, X.nf, lambda i: eq(get(p, i), Sum(0, X.nd, lambda j: fill0(X.val(p, i, j) * dtheta(sp, j), X.isnan(p, i, j))),
                                                                       rtol=1e-9, atol=1e-12), "i"), "p")
    if dims == [NAME_F]:
        return forall(0, X.np_, lambda p: forall(0, X.nd, lambda j: eq(get(p, j), trap(lambda i: fill0(X.val(p, i, j), X.isnan(p, i, j))), rtol=1e-9, atol=1e-12), "j"), "p")
    return forall(0, X.np_, lambda p: eq(get(p), Sum(0, X.nd, lambda j: trap(lambda i: fill0(X.val(p, i, j), X.isnan(p, i, j))) * dtheta(sp, j)), rtol=1e-9, atol=1e-12), "p")


def _wit_isd(dims):
    def w():
        import numpy as np
        s2 = _wit_spectra()[1]
        return (str(dims), {"dataset": s2.dataset[NAME_E], "dims": dims})
    return w


ISD_DIMS = [NAME_D, NAME_F, [NAME_F, NAME_D]]
integrate_spectral_data_c = Contract(
    "wavespectra/operations.py::integrate_spectral_data", instances=[(str(d_), _p_isd(d_)) for d_ in ISD_DIMS] + [("bad_dimension", _p_isd("time"))],
    requires=[("dims", lambda a: And(*[n >= (1 if k == 2 else 0) for k, n in enumerate(_XV(a.dataset).arr.shape)]) if hasattr(a.dataset, "_o") else True)],
    ensures=[("same_quadrature_as_the_spectrum_methods", _isd_post, {str(d_) for d_ in ISD_DIMS})],
    raises={"ValueError": lambda a: a.dims == "time"},
    witness=[_wit_isd(d_) for d_ in ISD_DIMS],
)

import copy as _copy
dstep_c = _copy.copy(direction_step)
e_c = _copy.copy(e_2d)
CONTRACTS = [dstep_c, e_c, a1_c, b1_c, a2_c, b2_c, as_frequency_spectrum, e_follows_data, integrate_spectral_data_c]
TRUSTED = ["xarray library contracts of pyvc/models/xr.py", "cos/sin are uninterpreted (only their identity on equal arguments is used)",
           "direction_step and e(f) contracts are verified in C01 and used here at call sites"]
EXPLANATION = ("a1,b1,a2,b2 of a 2D spectrum proved equal to the weighted directional sums over e(f) with the wrapped bin widths; the 2D->1D conversion proved to carry "
               "e, the moments and every other variable; bin widths sum to 360 by an induction lemma; the unit-disc bounds (|moment| <= 1) are a bounded check")
