"""Polynomial normal form over atoms, finite-sum linearity and symbolic differentiation of executor terms.

Used where a postcondition says "this result is the derivative of that result" (C06: the MEM2 Jacobian).  A term produced by
the symbolic executor (z3 real arithmetic over uninterpreted exp, array reads, Sum/Min operators) is converted to

    poly  = { monomial : Fraction }            monomial = sorted tuple of (atom key, power)
    atoms = numerals-free leaves: constants, array reads, exp(poly), inv(poly), SUM(lo, hi, body poly in the canonical
            bound variable), MIN-applications, derivative-of-min placeholders

Rules applied (this is the trusted algebra of this module; everything else is left to the SMT solver):
  * ring laws of + and * (commutative normal form), a/b = a * inv(b), inv(x) * x = 1 for an atom x (side condition x != 0 is
    reported to the caller, which must prove it);
  * linearity of finite sums: Sum(c * f(k) + g(k)) = c * Sum(f) + Sum(g) when c does not mention k;
  * d/dv of the above: product/chain rule, d exp(u) = exp(u) du, d inv(p) = -inv(p)^2 dp, d Sum(body) = Sum(d body),
    d of an array read / other constant = 0, d of a Min-application = an *arbitrary* real (fresh constant per (application, v)):
    a result that holds for every value of that placeholder holds for every subgradient of the minimum.
"""
from fractions import Fraction
import z3
from . import terms as T
from .terms import Unsupported


class Algebra:
    def __init__(self):
        self.atoms = {}          # key -> ("const", z3) | ("exp", poly) | ("inv", poly) | ("sum", lo, hi, depth, poly) | ("opaque", z3)
        self.nonzero = []        # polys whose inverse was cancelled against themselves (side conditions)
        self.dmin = {}
        self.depth = 0
        self._sumcache = {}

    # ------------------------------------------------------------------ polynomials
    def const(self, c):
        c = Fraction(c)
        return {(): c} if c != 0 else {}

    def atom(self, key, info):
        if key not in self.atoms:
            self.atoms[key] = info
        return {((key, 1),): Fraction(1)}

    def add(self, p, q):
        out = dict(p)
        for m, c in q.items():
            v = out.get(m, 0) + c
            if v == 0:
                out.pop(m, None)
            else:
                out[m] = v
        return out

    def neg(self, p):
        return {m: -c for m, c in p.items()}

    def scale(self, p, c):
        c = Fraction(c)
        return {m: v * c for m, v in p.items()} if c != 0 else {}

    def mul_mono(self, m1, m2):
        d = dict(m1)
        for k, e in m2:
            d[k] = d.get(k, 0) + e
        # x * inv(x) = 1 for an atom x
        for k in list(d):
            info = self.atoms.get(k)
            if info and info[0] == "inv" and d.get(k, 0) > 0:
                p = info[1]
                if len(p) == 1:
                    (mm, cc), = p.items()
                    if cc == 1 and len(mm) == 1 and mm[0][1] == 1 and d.get(mm[0][0], 0) > 0:
                        x = mm[0][0]
                        n = min(d[k], d[x])
                        d[k] -= n
                        d[x] -= n
                        if p not in self.nonzero:
                            self.nonzero.append(p)
        for k in list(d):
            info = self.atoms.get(k)
            if info and info[0] == "ind" and d[k] > 1:
                d[k] = 1                                   # an indicator is idempotent
        return tuple(sorted((k, e) for k, e in d.items() if e != 0))

    def mul(self, p, q):
        out = {}
        for m1, c1 in p.items():
            for m2, c2 in q.items():
                m = self.mul_mono(m1, m2)
                v = out.get(m, 0) + c1 * c2
                if v == 0:
                    out.pop(m, None)
                else:
                    out[m] = v
        if len(out) > 20000:
            raise Unsupported("polynomial normal form too large")
        return out

    def key(self, p):
        return "{" + " + ".join(f"{c}*" + "*".join(f"{k}^{e}" for k, e in m) for m, c in sorted(p.items(), key=lambda kv: str(kv[0]))) + "}"

    def inv(self, p):
        if not p:
            raise Unsupported("division by the zero polynomial")
        if len(p) == 1:
            (m, c), = p.items()
            if m == ():
                return self.const(1 / c)
        return self.atom("inv" + self.key(p), ("inv", p))

    # ------------------------------------------------------------------ from executor terms
    def bvar(self, depth):
        return z3.Int(f"kappa!{depth}")

    def binder_depth(self, app):
        """index of the canonical bound variable for a Sum/Min application: one more than the largest index of an outer bound
        variable the application mentions (closed applications get index 1 wherever they occur, so equal sub-terms are one atom)"""
        import re
        ks = [int(x) for x in re.findall(r"kappa!(\d+)", str(app))]
        return 1 + max(ks, default=0)

    def from_term(self, t):
        if isinstance(t, (int, Fraction)) and not isinstance(t, bool):
            return self.const(t)
        if not T.is_sym(t):
            raise Unsupported(f"calculus: {type(t).__name__}")
        if z3.is_rational_value(t) or z3.is_int_value(t):
            return self.const(Fraction(t.numerator_as_long(), t.denominator_as_long()) if z3.is_rational_value(t) else t.as_long())
        k = t.decl().kind()
        ch = t.children()
        if k == z3.Z3_OP_ADD:
            p = {}
            for c in ch:
                p = self.add(p, self.from_term(c))
            return p
        if k == z3.Z3_OP_SUB:
            p = self.from_term(ch[0])
            for c in ch[1:]:
                p = self.add(p, self.neg(self.from_term(c)))
            return p
        if k == z3.Z3_OP_UMINUS:
            return self.neg(self.from_term(ch[0]))
        if k == z3.Z3_OP_MUL:
            p = self.const(1)
            for c in ch:
                p = self.mul(p, self.from_term(c))
            return p
        if k == z3.Z3_OP_DIV:
            return self.mul(self.from_term(ch[0]), self.inv(self.from_term(ch[1])))
        if k == z3.Z3_OP_TO_REAL:
            return self.int_atom(ch[0])
        if k == z3.Z3_OP_ITE:
            # If(c, x, y) = [c] x + (1 - [c]) y with the indicator [c] as an atom (keyed by the condition's text)
            ind = self.atom("ind[" + str(z3.simplify(ch[0])) + "]", ("ind", ch[0]))
            return self.add(self.mul(ind, self.from_term(ch[1])), self.mul(self.add(self.const(1), self.neg(ind)), self.from_term(ch[2])))
        if k == z3.Z3_OP_UNINTERPRETED:
            if t.num_args() == 0:
                return self.atom(str(t), ("const", t))
            did = t.decl().get_id()
            if did in T.SumDef.registry:
                d = T.SumDef.registry[did]
                dep = self.binder_depth(t)
                kv = self.bvar(dep)
                body = self.from_term(d.body_at(t, kv))
                return self.sum(ch[0], ch[1], dep, body)
            if did == T.UF1["exp"].get_id():
                u = self.from_term(ch[0])
                return self.atom("exp" + self.key(u), ("exp", u))
            if did in T.ExtDef.registry:
                # min / max over a range: opened like a sum, so that two computations of the same extreme are one atom
                d = T.ExtDef.registry[did]
                dep = self.binder_depth(t)
                kv = self.bvar(dep)
                body = self.from_term(d.body_at(t, kv))
                key = f"{'MAX' if d.is_max else 'MIN'}[{ch[0]},{ch[1]},{dep}]" + self.key(body)
                return self.atom(key, ("ext", ch[0], ch[1], dep, body, d.is_max))
            if all(z3.is_int(c) for c in ch):
                return self.atom(str(t), ("const", t))          # array read
            return self.atom("uf:" + str(t), ("ufapp", t))        # other uninterpreted application (powr, sqrt, ...): an opaque atom
        raise Unsupported(f"calculus: operator {t.decl().name()}")

    def int_atom(self, t):
        if z3.is_int_value(t):
            return self.const(t.as_long())
        return self.atom("int:" + str(t), ("const", z3.ToReal(t)))

    def mentions(self, key, depth, seen=None):
        """does atom `key` mention the bound variable of nesting depth `depth`?"""
        info = self.atoms[key]
        name = f"kappa!{depth}"
        if info[0] in ("const", "opaque", "ind", "ufapp"):
            return name in str(info[1])
        if info[0] in ("exp", "inv"):
            return any(self.mentions(k, depth) for m in info[1] for k, _ in m)
        if info[0] in ("sum", "ext"):
            if name in str(info[1]) or name in str(info[2]):
                return True
            if info[3] == depth:
                return False              # bound by this operator
            return any(self.mentions(k, depth) for m in info[4] for k, _ in m)
        if info[0] == "dmin":
            return False
        raise Unsupported(info[0])

    def sum(self, lo, hi, depth, body):
        """linearity: one SUM atom per monomial, factors that do not mention the bound variable pulled out"""
        out = {}
        for m, c in body.items():
            dep = tuple((k, e) for k, e in m if self.mentions(k, depth))
            ind = tuple((k, e) for k, e in m if not self.mentions(k, depth))
            if dep:
                inner = {dep: Fraction(1)}
                key = f"SUM[{lo},{hi},{depth}]" + self.key(inner)
                s = self.atom(key, ("sum", lo, hi, depth, inner))
            else:
                # sum of a constant: (hi - lo) * c, only for lo <= hi (the executor's ranges); kept as an atom times the count
                n = z3.simplify(z3.ToReal(hi - lo))
                s = self.from_term(n)
            term = self.mul({ind: c}, s)
            out = self.add(out, term)
        return out

    # ------------------------------------------------------------------ differentiation
    def d_atom(self, key, v):
        info = self.atoms[key]
        if info[0] == "const":
            return self.const(1) if info[1].eq(v) else {}
        if info[0] == "exp":
            return self.mul(self.atom(key, info), self.diff(info[1], v))
        if info[0] == "inv":
            a = self.atom(key, info)
            return self.neg(self.mul(self.mul(a, a), self.diff(info[1], v)))
        if info[0] == "sum":
            return self.sum(info[1], info[2], info[3], self.diff(info[4], v))
        if info[0] == "opaque":
            raise Unsupported("derivative of an opaque term")
        if info[0] == "ind":
            raise Unsupported("derivative of a piecewise term")
        if info[0] == "ufapp":
            if str(v) in str(info[1]):
                raise Unsupported("derivative of an uninterpreted application")
            return {}
        if info[0] == "ext":
            if not self.depends(info[4], v):
                return {}
            k = (key, str(v))
            if k not in self.dmin:
                self.dmin[k] = z3.Real(f"dmin!{len(self.dmin)}")
            c = self.dmin[k]
            return self.atom(str(c), ("const", c))
        if info[0] == "dmin":
            return {}
        raise Unsupported(info[0])

    def depends(self, p, v):
        for m in p:
            for k, _ in m:
                info = self.atoms[k]
                if info[0] == "const":
                    if info[1].eq(v):
                        return True
                elif info[0] in ("ind", "ufapp"):
                    if str(v) in str(info[1]):
                        return True
                elif info[0] in ("exp", "inv"):
                    if self.depends(info[1], v):
                        return True
                elif info[0] in ("sum", "ext"):
                    if self.depends(info[4], v):
                        return True
        return False

    def diff(self, p, v):
        out = {}
        for m, c in p.items():
            for i, (k, e) in enumerate(m):
                rest = tuple(x for j, x in enumerate(m) if j != i) + (((k, e - 1),) if e > 1 else ())
                rest = tuple(sorted(rest))
                t = self.mul({rest: c * e}, self.d_atom(k, v))
                out = self.add(out, t)
        return out

    # ------------------------------------------------------------------ back to z3
    def atom_term(self, key):
        info = self.atoms[key]
        if info[0] in ("const", "opaque", "ufapp"):
            return info[1]
        if info[0] == "ind":
            return z3.If(info[1], z3.RealVal(1), z3.RealVal(0))
        if info[0] == "exp":
            return T.UF1["exp"](self.to_term(info[1]))
        if info[0] == "inv":
            return 1 / self.to_term(info[1])
        if info[0] == "ext":
            if key not in self._sumcache:
                kv = self.bvar(info[3])
                self._sumcache[key] = T.to_z3(T.make_extreme(info[1], info[2], kv, self.to_term(info[4]), info[5]))
            return self._sumcache[key]
        if info[0] == "sum":
            ck = key
            if ck not in self._sumcache:
                kv = self.bvar(info[3])
                self._sumcache[ck] = T.to_z3(T.make_sum(info[1], info[2], kv, self.to_term(info[4])))
            return self._sumcache[ck]
        raise Unsupported(info[0])

    def to_term(self, p):
        acc = z3.RealVal(0)
        first = True
        for m, c in sorted(p.items(), key=lambda kv: str(kv[0])):
            t = z3.RealVal(str(c)) if True else None
            t = z3.Q(c.numerator, c.denominator)
            for k, e in m:
                a = self.atom_term(k)
                for _ in range(e):
                    t = t * a
            acc = t if first else acc + t
            first = False
        return acc


    # ------------------------------------------------------------------ numeric evaluation (cross-check of the algebra against CPython floats)
    def eval_int(self, t, env):
        t = z3.substitute(t, *[(z3.Int(k), z3.IntVal(v)) for k, v in env["ints"].items()]) if env["ints"] else t
        t = z3.simplify(t)
        if not z3.is_int_value(t):
            raise Unsupported(f"calculus.eval: integer term {t} not closed")
        return t.as_long()

    def eval_atom(self, key, env):
        import math
        info = self.atoms[key]
        if info[0] == "const":
            t = info[1]
            if z3.is_app(t) and t.decl().kind() == z3.Z3_OP_TO_REAL:
                return float(self.eval_int(t.arg(0), env))
            if t.num_args() == 0:
                return float(env["consts"][str(t)])
            idx = tuple(self.eval_int(c, env) for c in t.children())
            return float(env["arrays"][t.decl().name()][idx])
        if info[0] == "exp":
            return math.exp(self.eval_poly(info[1], env))
        if info[0] == "inv":
            return 1.0 / self.eval_poly(info[1], env)
        if info[0] in ("sum", "ext"):
            lo, hi = self.eval_int(info[1], env), self.eval_int(info[2], env)
            name = f"kappa!{info[3]}"
            saved = env["ints"].get(name)
            vals = []
            for k in range(lo, hi):
                env["ints"][name] = k
                vals.append(self.eval_poly(info[4], env))
            if saved is None:
                env["ints"].pop(name, None)
            else:
                env["ints"][name] = saved
            if info[0] == "sum":
                return math.fsum(vals)
            return max(vals) if info[5] else min(vals)
        raise Unsupported(info[0])

    def eval_poly(self, p, env):
        import math
        tot = []
        for m, c in p.items():
            v = float(c)
            for k, e in m:
                v *= self.eval_atom(k, env) ** e
            tot.append(v)
        return math.fsum(tot)
