#!/bin/bash
# ./mutate.sh <relative file under src/ocean_science_utilities> <old text> <new text> <Cxx...>
# one-off textual mutant on a scratch copy (outside /repo and /verif), checks run against it, copy removed.
set -u
f=$1; old=$2; new=$3; shift 3
scratch=$(mktemp -d /tmp/osu-scratch-XXXXXX)
mkdir -p "$scratch/repo" && cp -r "${MUTATE_BASE:-/repo}/src" "$scratch/repo/src"   # MUTATE_BASE: tree to mutate (e.g. a scratch copy with candidate fixes applied)
python3 - "$scratch/repo/src/ocean_science_utilities/$f" "$old" "$new" <<'PY' || { rm -rf "$scratch"; exit 9; }
import sys
p, old, new = sys.argv[1:4]
s = open(p).read()
if s.count(old) < 1:
    print("MUTATION TEXT NOT FOUND"); sys.exit(1)
open(p, "w").write(s.replace(old, new, 1))
PY
rc=0
for p in "$@"; do
  OSU_REPO="$scratch/repo" OSU_EVIDENCE_DIR="$scratch/evidence" NUMBA_CACHE_DIR="$scratch/numba" "$(dirname "$0")/check" "$p" ${CHECK_ARGS:-} 2>&1 | grep -E "VIOLATION|UNDECIDED|CHECKER|failed obligation|^C[0-9]+:" | head -${TAILN:-6}
  r=${PIPESTATUS[0]}; echo "exit=$r"
done
rm -rf "$scratch"
