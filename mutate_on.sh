#!/bin/bash
# like mutate.sh, but the mutant is applied on top of the tree $OSU_BASE (default /repo), e.g. a scratch copy that
# carries the candidate fixes of fixes/*.diff:  OSU_BASE=/tmp/x/repo ./mutate_on.sh <file> <old> <new> Cxx...
set -u
f=$1; old=$2; new=$3; shift 3
base=${OSU_BASE:-/repo}
scratch=$(mktemp -d /tmp/osu-scratch-XXXXXX)
mkdir -p "$scratch/repo" && cp -r "$base/src" "$scratch/repo/src"
python3 - "$scratch/repo/src/ocean_science_utilities/$f" "$old" "$new" <<'PY' || { rm -rf "$scratch"; exit 9; }
import sys
p, old, new = sys.argv[1:4]
s = open(p).read()
if s.count(old) < 1:
    print("MUTATION TEXT NOT FOUND"); sys.exit(1)
open(p, "w").write(s.replace(old, new, 1))
PY
for p in "$@"; do
  OSU_REPO="$scratch/repo" OSU_EVIDENCE_DIR="$scratch/evidence" NUMBA_CACHE_DIR="$scratch/numba" "$(dirname "$0")/check" "$p" 2>&1 | grep -E "VIOLATION|UNDECIDED|CHECKER|failed obligation|^C[0-9]+:" | head -${TAILN:-6}
  r=${PIPESTATUS[0]}; echo "exit=$r"
done
rm -rf "$scratch"
