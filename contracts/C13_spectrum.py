"""C13 — spectrum-level interpolation wiring (linear / nearest; the spline method is C15's).

  wavespectra/spectrum.py::WaveSpectrum.interpolate / interpolate_frequency            (2D spectra)
  wavespectra/spectrum.py::FrequencySpectrum.interpolate / interpolate_frequency       (1D spectra: energy-weighted moments)

The dataset-level functions (contracts/C13_wiring.py) are callees: an uninterpreted application whose arguments are recorded and whose
result is a data set with the same variables on the same dimensions (verified there: variables_kept_in_order, kernel.shape, pass-through)
with unconstrained, possibly missing values.  The contracts here are relative to it: which data set / coordinates / mode it is handed,
and what is done to its result (missing values of the spectral variables replaced by the extrapolation value; 1D moments divided back)."""
from pyvc.api import *
from pyvc.api import CalleeContract
import pyvc.terms as T
from pyvc.values import Arr, Obj, Ref
import pyvc.models.xr as xr
from contracts.spec_common import spectrum, S, NAME_F, NAME_E
from contracts.C13_wiring import DS, Cells, _symbolic, _same_ref

SPECTRAL_VARS = ("variance_density", "a1", "b1", "a2", "b2")     # the statement's "spectra": the variables fillna touches (spectrum.py:62)
MOMENTS = ("a1", "b1", "a2", "b2")


# ------------------------------------------------------------------ the dataset-level callee
def _interp_result(kind):
    def build(mk, a):
        st = mk.st
        ds = st.deref(a.data_set)
        if not (isinstance(ds, Obj) and ds.cls == "Dataset"):
            raise T.Unsupported("dataset-level interpolation of something that is not a Dataset")

        def arr_of(v):
            d = st.deref(v)
            return d.fields["arr"] if xr.is_xa(d) else d
        if kind == "grid":
            targets = {k: arr_of(v) for k, v in st.deref(a.coordinates).items()}
        else:
            targets = {st.deref(a.coordinate_name): arr_of(a.coordinate_value)}
        vs, allc = {}, {}
        for name, ref in ds.fields["vars"].items():
            da = st.deref(ref)
            dims, shp = da.fields["dims"], da.fields["arr"].shape
            shape = tuple(targets[d].shape[0] if d in targets else n for d, n in zip(dims, shp))
            coords = {d: (targets[d] if d in targets else da.fields["coords"][d]) for d in dims if d in targets or d in da.fields["coords"]}
            allc.update(coords)
            vs[name] = xr.mk_xa(st, dims, st.deref(mk.array("interpolated_" + name, shape)), st.deref(mk.array("interpolated_" + name + "_nan", shape, "bool")), coords)
        out = st.alloc(Obj("Dataset", {"vars": vs, "coords": allc}), "interpolated_data_set")
        rec = {"fn": kind, "data_set": a.data_set, "vars": dict(ds.fields["vars"]), "nearest_neighbour": a.nearest_neighbour,
               "periodic_data": a.periodic_data, "result": out, "result_vars": dict(vs)}
        if kind == "grid":
            rec["coordinates"] = dict(st.deref(a.coordinates))
        else:
            rec["coordinates"] = {st.deref(a.coordinate_name): a.coordinate_value}
            rec["periodic_coordinates"] = a.periodic_coordinates
        st.ghost["ds_calls"] = st.ghost.get("ds_calls", ()) + (rec,)
        return out
    return build


_NOTE = ("uninterpreted at this call site (arguments recorded); the result has the operand's variables on their dimensions, the interpolated dimension as long as "
         "the targets - verified for the instance data sets of C13.interpolate_dataset_along_axis / interpolate_dataset_grid; values and missing flags unconstrained")
GRID_CALL = CalleeContract(DS + "interpolate_dataset_grid", _interp_result("grid"), assumed=False, note=_NOTE)
AXIS_CALL = CalleeContract(DS + "interpolate_dataset_along_axis", _interp_result("axis"), assumed=False, note=_NOTE)


# ------------------------------------------------------------------ parameters
def _p_spec(kind, how, extrap, extra=None):
    """how: 'coordinates' (interpolate) | 'frequencies' (interpolate_frequency); extrap: 'default' | 'given'"""
    def p(mk):
        sp = spectrum(mk, kind)
        st = mk.st
        x = mk.array("targets", (mk.size("m"),))
        d = {"self": sp}
        if how == "coordinates":
            d["coordinates"] = st.alloc({NAME_F: x}, "coordinates")
        else:
            d["new_frequencies"] = x
        if extrap == "given":
            d["extrapolation_value"] = mk.real("extrapolation_value")
        d.update(extra or {})
        ds = st.deref(st.deref(sp).fields["dataset"])
        st.ghost["pre_vars"] = {k: v.id for k, v in ds.fields["vars"].items()}
        st.ghost["pre_ds"] = st.deref(sp).fields["dataset"].id
        st.ghost["targets"] = x
        return d
    return p


def _extrap(a):
    return a.extrapolation_value if "extrapolation_value" in a else 0


def _call(a):
    calls = a._ghost.get("ds_calls", ())
    return calls[0] if len(calls) == 1 else None


def _self_vars(a):
    st = a._snap
    return st.deref(st.deref(a._raw["self"]).fields["dataset"]).fields["vars"]


def _forall_cells(shape, fn):
    import z3
    ix = [T.Fresh.int(f"i{k}") for k in range(len(shape))]
    rng = z3.And(*[z3.And(i >= 0, i < T.to_z3(s)) for i, s in zip(ix, shape)])
    body = fn(tuple(ix))
    return z3.ForAll(ix, z3.Implies(rng, T.to_z3(body))) if ix else body


# ------------------------------------------------------------------ clauses
def _s_one_call(fn, nearest, coord_from):
    """the dataset-level function is called once: for these targets along `frequency`, in this mode"""
    def f(a, r):
        if not _symbolic(a):
            return True
        c = _call(a)
        if c is None or c["fn"] != fn or list(c["coordinates"]) != [NAME_F]:
            return False
        want = nearest(a) if callable(nearest) else nearest
        got = c["nearest_neighbour"]
        if not (got is want if isinstance(want, bool) or isinstance(got, bool) else got == want):
            return False
        if c["periodic_data"] is not None or c.get("periodic_coordinates") is not None:
            return False
        return _same_ref(c["coordinates"][NAME_F], a._ghost["targets"])
    return f


def _s_handed_own_dataset(a, r):
    """2D: the spectrum's own data set is interpolated"""
    if not _symbolic(a):
        return True
    c = _call(a)
    return c is not None and c["data_set"].id == a._ghost["pre_ds"] and {k: v.id for k, v in c["vars"].items()} == a._ghost["pre_vars"]


def _s_handed_energy_weighted(a, r):
    """1D: the data set handed to the interpolation holds E·a1, E·b1, E·a2, E·b2 (missing where either factor is) and every other
    variable of the spectrum as it is"""
    if not _symbolic(a):
        return True
    c = _call(a)
    if c is None:
        return False
    st = a._snap
    mine = _self_vars(a)
    if list(c["vars"]) != list(mine):
        return False
    E = Cells(st.deref(mine[NAME_E]))
    cs = []
    for name, ref in c["vars"].items():
        if name not in MOMENTS:
            if ref.id != mine[name].id:
                return False
            continue
        m, got = Cells(st.deref(mine[name])), Cells(st.deref(ref))
        if tuple(got.shape) != tuple(m.shape) or st.deref(ref).fields["dims"] != st.deref(mine[name]).fields["dims"]:
            return False
        cs.append(_forall_cells(m.shape, lambda ix, m=m, got=got: And(
            iff(isnan(got[ix]), Or(isnan(m[ix]), isnan(E[ix]))), implies(notnan(got[ix]), eq(valof(got[ix]), valof(m[ix]) * valof(E[ix]))))))
    return And(*cs)


def _result_vars(a, r):
    st = a._snap
    o = st.deref(a._result_raw)
    return st.deref(o.fields["dataset"]).fields["vars"], o


def _s_class(a, r):
    if not _symbolic(a):
        return type(r) is type(a.self)
    st = a._snap
    return st.deref(a._result_raw).cls is st.deref(a._raw["self"]).cls


def _s_filled(energy_weighted):
    """spectral variables of the result: the interpolated value (1D moments: interpolated E·moment divided by interpolated E), the
    extrapolation value where that is missing; never missing"""
    def f(a, r):
        if not _symbolic(a):
            return True
        c = _call(a)
        if c is None:
            return False
        st = a._snap
        rv, _ = _result_vars(a, r)
        ext = _extrap(a)
        cs = []
        for name in SPECTRAL_VARS:
            if name not in c["result_vars"]:
                continue
            if name not in rv:
                return False
            got, q = Cells(st.deref(rv[name])), Cells(st.deref(c["result_vars"][name]))
            if tuple(got.shape) != tuple(q.shape):
                return False
            if energy_weighted and name in MOMENTS:
                e = Cells(st.deref(c["result_vars"][NAME_E]))
                cs.append(_forall_cells(q.shape, lambda ix, got=got, q=q, e=e: And(
                    notnan(got[ix]),
                    implies(Or(isnan(q[ix]), isnan(e[ix])), eq(valof(got[ix]), ext)),
                    implies(And(notnan(q[ix]), notnan(e[ix]), Not(eq(valof(e[ix]), 0))), eq(valof(got[ix]), valof(q[ix]) / valof(e[ix]))))))
            else:
                cs.append(_forall_cells(q.shape, lambda ix, got=got, q=q: And(
                    notnan(got[ix]), eq(valof(got[ix]), If(isnan(q[ix]), ext, valof(q[ix]))))))
        return And(*cs)
    return f


def _s_others_untouched(a, r):
    """the other variables of the result are the callee's, untouched"""
    if not _symbolic(a):
        return True
    c = _call(a)
    if c is None:
        return False
    rv, _ = _result_vars(a, r)
    return list(rv) == list(c["result_vars"]) and all(rv[k].id == v.id for k, v in c["result_vars"].items() if k not in SPECTRAL_VARS)


def _s_operand_unchanged(a, r):
    if not _symbolic(a):
        return True
    st = a._snap
    o = st.deref(a._raw["self"])
    ds = st.deref(o.fields["dataset"])
    return (o.fields["dataset"].id == a._ghost["pre_ds"] and {k: v.id for k, v in ds.fields["vars"].items()} == a._ghost["pre_vars"]
            and not ds.fields.get("writes"))


# ------------------------------------------------------------------ native twin: the same relative statement on real objects
def _expected_native(a, kind, how, nearest):
    import numpy as np
    from ocean_science_utilities.interpolate.dataset import interpolate_dataset_grid, interpolate_dataset_along_axis
    sp = a.self
    x = a.coordinates[NAME_F] if how == "coordinates" else a.new_frequencies
    ds = sp.dataset
    if kind == "1d":
        ds = ds.copy()
        for m in MOMENTS:
            ds[m] = sp.dataset[m] * sp.dataset[NAME_E]
    out = interpolate_dataset_along_axis(np.asarray(x, dtype=float), ds, coordinate_name=NAME_F, nearest_neighbour=nearest)
    if kind == "1d":
        with np.errstate(all="ignore"):
            for m in MOMENTS:
                out[m] = out[m] / out[NAME_E]
    for v in SPECTRAL_VARS:
        if v in out:
            out[v] = out[v].fillna(_extrap(a))
    return out


def _s_native(kind, how, nearest):
    def f(a, r):
        if _symbolic(a):
            return True
        import numpy as np
        want = _expected_native(a, kind, how, nearest(a) if callable(nearest) else nearest)
        return all(v in r.dataset and np.allclose(r.dataset[v].values, want[v].values, rtol=1e-12, atol=1e-12, equal_nan=True) for v in want.data_vars)
    return f


def _native(kind):
    def f(kw, inst):
        from contracts.spec_common import native_spectrum
        import numpy as np
        d = dict(kw)
        if not hasattr(kw["self"], "dataset"):
            d["self"] = native_spectrum(kw["self"])
        for k in ("new_frequencies",):
            if k in d:
                d[k] = np.asarray(d[k], dtype=float)
        if "coordinates" in d:
            d["coordinates"] = {k: np.asarray(v, dtype=float) for k, v in d["coordinates"].items()}
        return d
    return f


def _samples(kind, how, labels, extra=None):
    def f(rng, tier):
        import numpy as np
        from ocean_science_utilities.wavespectra.spectrum import create_1d_spectrum, create_2d_spectrum
        out = []
        for _ in range(6 if tier == "quick" else 60):
            nf, nt = int(rng.integers(3, 15)), int(rng.integers(1, 4))
            fq = np.cumsum(rng.uniform(0.01, 0.05, nf))
            tm = np.arange(nt).astype("datetime64[s]")
            if kind == "1d":
                E = rng.random((nt, nf))
                E[rng.random((nt, nf)) < 0.15] = np.nan
                mom = [rng.uniform(-0.7, 0.7, (nt, nf)) for _ in range(4)]
                mom[0][rng.random((nt, nf)) < 0.1] = np.nan
                sp = create_1d_spectrum(fq, E, tm, np.zeros(nt), np.zeros(nt), a1=mom[0], b1=mom[1], a2=mom[2], b2=mom[3], depth=np.full(nt, 100.0))
            else:
                nd = 8
                E = rng.random((nt, nf, nd))
                E[rng.random((nt, nf, nd)) < 0.1] = np.nan
                sp = create_2d_spectrum(fq, np.linspace(0, 360, nd, endpoint=False), E, tm, np.zeros(nt), np.zeros(nt), depth=np.full(nt, 100.0))
            x = rng.uniform(fq[0] - 0.05, fq[-1] + 0.05, int(rng.integers(1, 8)))
            x[0] = fq[int(rng.integers(0, nf))]
            lab = labels[int(rng.integers(0, len(labels)))]
            kw = {"self": sp}
            if how == "coordinates":
                kw["coordinates"] = {NAME_F: x}
            else:
                kw["new_frequencies"] = x
            if "given" in lab:
                kw["extrapolation_value"] = float(rng.choice([0.0, -1.0, 2.5]))
            kw.update((extra or (lambda l: {}))(lab))
            out.append((lab, kw))
        return out
    return f


def _contract(target, label, kind, how, fn, nearest, instances, extra_samples=None, handed=None):
    energy = kind == "1d"
    ens = [("dataset_function_called_once_for_these_targets_and_mode", _s_one_call(fn, nearest, how)),
           ("interpolates_energy_and_energy_weighted_moments" if energy else "interpolates_its_own_data_set", _s_handed_energy_weighted if energy else _s_handed_own_dataset),
           ("same_class", _s_class),
           ("missing_replaced_by_the_extrapolation_value" + (".moments_divided_by_interpolated_energy" if energy else ""), _s_filled(energy)),
           ("other_variables_are_the_interpolated_ones", _s_others_untouched),
           ("operand_unchanged", _s_operand_unchanged),
           ("equals_fill_of_the_dataset_interpolation.native", _s_native(kind, how, nearest))]
    return Contract(S + target, label=label, instances=instances, ensures=ens,
                    callees={GRID_CALL.target: GRID_CALL, AXIS_CALL.target: AXIS_CALL}, native=_native(kind),
                    options={"samples": _samples(kind, how, [l for l, _ in instances], extra_samples)})


_near_arg = lambda a: bool(a.nearest_neighbour) if "nearest_neighbour" in a else False
_near_method = lambda a: (a.method == "nearest") if "method" in a else False

ws_interpolate = _contract("WaveSpectrum.interpolate", "WaveSpectrum.interpolate", "2d", "coordinates", "grid", False,
                           [("2d,default", _p_spec("2d", "coordinates", "default")), ("2d,given", _p_spec("2d", "coordinates", "given"))])
ws_interpolate_frequency = _contract("WaveSpectrum.interpolate_frequency", "WaveSpectrum.interpolate_frequency", "2d", "frequencies", "axis", False,
                                     [("2d,default", _p_spec("2d", "frequencies", "default")), ("2d,given", _p_spec("2d", "frequencies", "given"))])
fs_interpolate = _contract("FrequencySpectrum.interpolate", "FrequencySpectrum.interpolate", "1d", "coordinates", "grid", _near_arg,
                           [("1d,default", _p_spec("1d", "coordinates", "default")),
                            ("1d,given,nearest", _p_spec("1d", "coordinates", "given", {"nearest_neighbour": True})),
                            ("1d,given,linear", _p_spec("1d", "coordinates", "given", {"nearest_neighbour": False}))],
                           extra_samples=lambda lab: ({"nearest_neighbour": "nearest" in lab} if "given" in lab else {}))
fs_interpolate_frequency = _contract("FrequencySpectrum.interpolate_frequency", "FrequencySpectrum.interpolate_frequency", "1d", "frequencies", "grid", _near_method,
                                     [("1d,default", _p_spec("1d", "frequencies", "default")),
                                      ("1d,given,nearest", _p_spec("1d", "frequencies", "given", {"method": "nearest"})),
                                      ("1d,given,linear", _p_spec("1d", "frequencies", "given", {"method": "linear"}))],
                                     extra_samples=lambda lab: ({"method": "nearest" if "nearest" in lab else "linear"} if "given" in lab else {}))

CONTRACTS = [ws_interpolate, ws_interpolate_frequency, fs_interpolate, fs_interpolate_frequency]
