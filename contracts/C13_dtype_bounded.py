"""C13 - bounded stand-in (never counted as proved): the storage type of a variable must not change what is interpolated.
The verifier treats every number as a real, so an integer- or float32-typed variable is outside the proved contracts; this check
drives integer, unsigned, float32 and boolean-free numeric variables through interpolate_dataset_along_axis / _grid and compares
with the float64 reference written from the statement (added after seeded change C13-3 - result cast back to the source dtype - was
first missed)."""
import numpy as np
from contracts.C13_bounded import reference_1d, _grid, _targets, _dedupe, _n


def dataset_storage_types(tier, seed):
    """integer / unsigned / float32 variables: piecewise-linear value (not truncated), missing outside the grid"""
    import xarray
    from ocean_science_utilities.interpolate.dataset import interpolate_dataset_along_axis, interpolate_dataset_grid
    rng = np.random.default_rng(seed + 977)
    fails, evals = [], 0
    for case in range(_n(tier, 24, 240)):
        rank = int(rng.integers(1, 4))
        axis = int(rng.integers(0, rank))
        n = int(rng.integers(2, 12))
        dims = [f"d{i}" for i in range(rank)]
        dims[axis] = "t"
        shape = [int(rng.integers(1, 4)) for _ in range(rank)]
        shape[axis] = n
        xp = _grid(rng, n, bool(rng.integers(0, 2)))
        dtype = [np.int64, np.int32, np.uint8, np.float32][case % 4]
        y = rng.integers(0, 200, size=shape).astype(dtype)
        x = _targets(rng, xp, int(rng.integers(2, 7)))
        coords = {d: (xp if d == "t" else np.arange(s, dtype=float)) for d, s in zip(dims, shape)}
        ds = xarray.Dataset({"count": (dims, y)}, coords=coords)
        exp = reference_1d(xp, y.astype(float), axis, x, False)
        for fn_name, call in (("along_axis", lambda: interpolate_dataset_along_axis(x, ds, coordinate_name="t")),
                              ("grid", lambda: interpolate_dataset_grid({"t": x}, ds))):
            try:
                out = call()
            except Exception as e:
                fails.append({"case": case, "raised": f"{fn_name}: {type(e).__name__}: {e}"[:200]})
                continue
            evals += 1
            got = np.asarray(out["count"].values, dtype=float)
            rtol = 1e-5 if dtype is np.float32 else 1e-9
            if got.shape != exp.shape or not np.allclose(got, exp, rtol=rtol, atol=1e-9, equal_nan=True):
                fails.append({"case": case, "what": f"{fn_name}: value of a {np.dtype(dtype).name} variable differs from the piecewise-linear reference",
                              "dtype": np.dtype(dtype).name, "xp": xp.tolist(), "x": x.tolist(), "rank": rank, "axis": axis})
    return {"evaluations": evals, "distinct": evals, "failures": _dedupe(fails),
            "domain": "interpolate_dataset_along_axis / interpolate_dataset_grid on int64, int32, uint8 and float32 variables of rank 1..3, grids of 2..11 nodes, "
                      "targets inside / outside / on nodes"}
