"""C07 (last clause) — a spectrum's wavenumber, wavelength, wave-speed and group-velocity arrays are the dispersion
functions evaluated at its frequencies and per-point depths (missing depth = deep water)."""
from pyvc.api import *
from pyvc.api import CalleeContract
from contracts.spec_common import *
from contracts.C01 import _native, _wit_spectra, REQ
from contracts.C03 import _wit_clean
import pyvc.models.xr   # noqa
import z3 as _z3
from pyvc.values import Arr

DISP = _z3.Function("dispersion_solver", T.RealS, T.RealS, T.RealS)
CG = _z3.Function("group_velocity_fn", T.RealS, T.RealS, T.RealS)


def _elementwise(fn, names):
    def res(mk, a):
        xs = [mk.st.deref(getattr(a, n)) for n in names]
        if not all(isinstance(x, Arr) for x in xs) or any(tuple(x.shape) != tuple(xs[0].shape) and not all(
                (s1 is s2) or (isinstance(s1, int) and s1 == s2) or (T.is_sym(s1) and T.is_sym(s2) and s1.eq(s2)) for s1, s2 in zip(x.shape, xs[0].shape)) for x in xs):
            raise T.Unsupported("dispersion stub: arrays of equal shape expected (the numba code does not broadcast)")
        return mk.st.alloc(Arr(xs[0].shape, lambda ix: fn(*[T.to_real(T.to_z3(x.get(ix))) for x in xs]), (), "real"), "disp")
    return res


SOLVER = CalleeContract("wavetheory/lineardispersion.py::inverse_intrinsic_dispersion_relation", _elementwise(DISP, ("angular_frequency", "dep")), assumed=True,
                        note="applied elementwise to arrays of equal shape; its accuracy is the contract above (conditional proof + bounded convergence)")
GROUP = CalleeContract("wavetheory/lineardispersion.py::intrinsic_group_velocity", _elementwise(CG, ("k", "depth")), assumed=True,
                       note="applied elementwise; its formula is the contract above")


def _dep(sp, p):
    return If(sp.var_nan("depth", p), T.INF, sp.var("depth", p))


def _w(sp, i):
    return T.to_real(T.to_z3(sp.f[i] * 2 * T.PI))


def _grid2(r, sp):
    if hasattr(r, "_o"):
        return lambda p, i: r.arr[p, i]
    import numpy as np
    v = np.asarray(r.values).reshape(sp.np_, sp.nf)
    return lambda p, i: float(v[p, i])


def _native_ref(sp, p, i):
    import numpy as np
    from ocean_science_utilities.wavetheory.lineardispersion import inverse_intrinsic_dispersion_relation as inv, intrinsic_group_velocity as cgf
    d = sp.var("depth", p)
    d = np.inf if np.isnan(d) else d
    w = 2 * np.pi * float(sp.f[i])
    k = float(inv(np.array([w]), np.array([d]))[0])
    return w, d, k, float(cgf(np.array([k]), np.array([d]))[0])


def _post(kind):
    def post(a, r):
        sp = Spec(a.self)
        g = _grid2(r, sp)
        if hasattr(r, "_o"):
            k = lambda p, i: DISP(_w(sp, i), T.to_real(T.to_z3(_dep(sp, p))))
            want = {"wavenumber": k, "wavelength": lambda p, i: 2 * T.PI / k(p, i),
                    "wave_speed": lambda p, i: (1 / k(p, i)) * _w(sp, i),
                    "group_velocity": lambda p, i: CG(k(p, i), T.to_real(T.to_z3(_dep(sp, p))))}[kind]
            return forall(0, sp.np_, lambda p: forall(0, sp.nf, lambda i: eq(g(p, i), want(p, i)), "i"), "p")
        import numpy as np
        from ocean_science_utilities.wavetheory.lineardispersion import inverse_intrinsic_dispersion_relation as inv, intrinsic_group_velocity as cgf
        dep = np.array([sp.var("depth", p) for p in range(sp.np_)], dtype="float64")
        dep = np.where(np.isnan(dep), np.inf, dep)
        Wg = np.ones((sp.np_, 1)) * (2 * np.pi * np.asarray(sp.f, dtype="float64"))[None, :]
        Dg = dep[:, None] * np.ones((1, sp.nf))
        K = inv(Wg, Dg)                      # the solver on the same broadcast arrays (its stopping test is over the whole array)
        ref = {"wavenumber": K, "wavelength": 2 * np.pi / K, "wave_speed": Wg / K, "group_velocity": cgf(K, Dg)}[kind]
        got = np.array([[g(p, i) for i in range(sp.nf)] for p in range(sp.np_)])
        ok = np.allclose(got, ref, rtol=1e-12, atol=0)
        if kind == "wavenumber":
            kd = K * Dg
            th = np.where(np.isfinite(kd), np.tanh(np.where(np.isfinite(kd), kd, 0.0)), 1.0)
            ok = ok and np.all(K > 0) and np.all(np.abs(np.sqrt(9.81 * K * th) - Wg) <= 1e-3 * Wg)
        return bool(ok)
    return post


def _c(kind):
    return Contract(S + "WaveSpectrum." + kind, instances=[("1d", lambda mk: {"self": spectrum(mk, "1d")}), ("2d", lambda mk: {"self": spectrum(mk, "2d")})],
                    requires=REQ[1:] + [("positive_frequencies", lambda a: forall(0, Spec(a.self).nf, lambda i: Spec(a.self).f[i] > 0))], ensures=[("dispersion_functions_at_own_frequencies_and_depths", _post(kind))], native=_native,
                    callees={SOLVER.target: SOLVER, GROUP.target: GROUP},
                    witness=[lambda: ("1d", {"self": _wit_clean()}), lambda: ("2d", {"self": _wit_2d_positive()})],
                    options={"native_call": lambda kw, inst, kind=kind: (getattr(kw["self"], kind)() if kind == "wave_speed" else getattr(kw["self"], kind))})


def _wit_2d_positive():
    import numpy as np
    from ocean_science_utilities.wavespectra.spectrum import create_2d_spectrum
    rng = np.random.default_rng(4)
    f = np.array([0.03, 0.05, 0.08, 0.1, 0.15, 0.22, 0.3, 0.45, 0.8])
    d = np.linspace(0, 360, 8, endpoint=False)
    return create_2d_spectrum(f, d, rng.random((3, len(f), len(d))), np.arange(3) * 3600, np.zeros(3), np.zeros(3), depth=np.array([25.0, np.nan, np.inf]))


SPECTRUM_CONTRACTS = [_c(k) for k in ("wavenumber", "wavelength", "wave_speed", "group_velocity")]
